#!/usr/bin/env python3
"""Regenerates the seeded-changes table of DESIGN.md section 9 from seeded/*/meta.json."""
import json, glob, os, re
ROOT = os.path.dirname(os.path.dirname(os.path.abspath(__file__)))
rows = []
for d in sorted(glob.glob(os.path.join(ROOT, "seeded", "C*-[A-Z]"))):
    m = json.load(open(os.path.join(d, "meta.json")))
    det = ", ".join(m.get("detected_by", [])) or "— (outside the universe, see text)"
    summ = (m.get("summary") or m.get("note") or "").replace("\n", " ").replace("|", "/")
    if len(summ) > 170:
        summ = summ[:167] + "…"
    rows.append("| %s | %s | %s |" % (os.path.basename(d), summ, det))
p = os.path.join(ROOT, "DESIGN.md")
s = open(p).read()
head = "| seeded change | what was changed | detected by |\n|---|---|---|\n"
i = s.index(head) + len(head)
j = s.index("\n\n", i)
s = s[:i] + "\n".join(rows) + s[j:]
open(p, "w").write(s)
print(len(rows), "rows")
