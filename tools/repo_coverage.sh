#!/bin/bash
# tools/repo_coverage.sh [IDs...]   statement coverage of the repository's packages under the quick checks.
# Builds a coverage-instrumented copy of the harness binary in a scratch directory, runs the checks with a
# scratch VERIF_ROOT (so that /verif/evidence is not touched), prints the percentage per package and the
# uncovered blocks, and removes the scratch directory.  The race-detector engines use the ordinary race
# binary and are not counted.
set -u
export GOFLAGS=-mod=mod GOPROXY=off GOSUMDB=off GOTOOLCHAIN=local
W=$(mktemp -d /tmp/repocov.XXXXXX)
trap 'rm -rf $W' EXIT
mkdir -p $W/bin $W/data $W/root
(cd /verif && ./vr --build) || exit 2
MOD=github.com/craterdog/go-collection-framework/v4
# (the main package has to be among the covered packages, otherwise no counters are written at all)
(cd /verif/harness && go build -cover -coverpkg=verif/harness/cmd/vcheck,$MOD,$MOD/agent,$MOD/collection,$MOD/cdcn -tags verif -o $W/bin/vcheck ./cmd/vcheck) || exit 2
cp /verif/.build/vcheck-race $W/bin/vcheck-race
rsync -a --exclude .git --exclude .build --exclude replays --exclude evidence /verif/ $W/root/
mkdir -p $W/root/.build $W/root/replays $W/root/evidence
IDS=${*:-C01 C02 C03 C04 C05 C06 C07 C08 C09 C10 C11 C12 C13 C14 C15 C16 C17 C18 C19 C20}
cd $W/root
for id in $IDS; do
  VERIF_ROOT=$W/root VERIF_REPO=/repo GOCOVERDIR=$W/data $W/bin/vcheck run $id quick 2>&1 | grep -E "^(VIOLATION|INCONCLUSIVE)|quick seed" | cut -c1-150
done
go tool covdata percent -i=$W/data | grep craterdog
go tool covdata textfmt -i=$W/data -o $W/profile.txt
echo "--- uncovered blocks (file start,end) ---"
grep craterdog $W/profile.txt | awk '{split($1,a,":"); if ($3==0) print a[1] " " a[2]}' | sed "s#$MOD/##" | sort -u
