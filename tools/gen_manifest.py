#!/usr/bin/env python3
"""Regenerates /verif/MANIFEST.json from the table below (keeps it valid while checks are added)."""
import json, os, subprocess
ROOT = os.path.dirname(os.path.dirname(os.path.abspath(__file__)))

# id -> (technique, level text, level note, design ref)
CHECKS = {
 "C01": ("lock-step reference-model monitor over PRNG-generated operation histories (runtime monitoring)",
         "Sampled executions under an oracle: generated histories on Array and List with hostile indices, slots, ranges and operand kinds are run against a Go-slice model that is compared on every read path after every call. Held-on-what-was-observed, not a proof; histories are sampled and sizes are <= 24.",
         "Trusts the harness model (written from the property statement), the Go runtime and the PRNG; NaN elements excluded (C07/C08).",
         "DESIGN.md 5, 6/C01"),
}
NOT_YET = "check not built yet in this round (runtime-monitoring design in DESIGN.md section 6)"

props = [json.loads(l) for l in open(os.path.join(ROOT, "properties.jsonl"))]
hooks_commits = []
try:
    out = subprocess.run(["git", "-C", "/repo", "log", "--format=%H %s"], capture_output=True, text=True).stdout
    hooks_commits = [l.split()[0] for l in out.splitlines() if "verif hooks" in l]
except Exception:
    pass
man = {
 "version": 1,
 "setup_cmd": "./vr --build",
 "hooks": {
  "guard": "verif",
  "enable": "go build -tags verif (the harness module in /verif/harness replaces the repository module with /repo/v4 and is always built with -tags verif by ./vr)",
  "baseline_off_cmd": "cd /repo/v4 && GOFLAGS=-mod=mod GOPROXY=off GOSUMDB=off go test -json -vet=off -count=1 -timeout 25m ./...",
  "source_commits": hooks_commits,
  "add_only": True,
 },
 "engines": [
  {"name": "vcheck", "path": "harness/cmd/vcheck", "serves_properties": sorted(CHECKS),
   "kind_free_text": "Go harness: orchestrator + child-process workers with a pre-execution journal; reference-model, law, history and schedule monitors; race-detector build for the concurrent properties"},
 ],
 "checks": [],
 "not_applicable": [],
 "notes": "Technique family: runtime monitoring and sanitizers. Every check rebuilds the harness against /repo's working tree (replace directive) with -tags verif. KNOWN_FINDINGS.json lists repaired (fixed:) and open findings. See DESIGN.md.",
}
for p in props:
    i = p["id"]
    if i in CHECKS:
        tech, text, note, ref = CHECKS[i]
        man["checks"].append({
         "property_id": i,
         "quick_cmd": "./vr %s quick" % i,
         "thorough_cmd": "./vr %s thorough" % i,
         "evidence_file": "/verif/evidence/%s.json" % i,
         "replay_cmd_template": "./vr %s --replay {path}" % i,
         "engine": "vcheck",
         "level_claimed": {"category": "exploration", "text": text, "design_ref": ref},
         "level_note": note,
         "technique": tech,
        })
    else:
        man["not_applicable"].append({"property_id": i, "reason": NOT_YET})
json.dump(man, open(os.path.join(ROOT, "MANIFEST.json"), "w"), indent=1)
print("MANIFEST.json:", len(man["checks"]), "checks,", len(man["not_applicable"]), "not claimed")
