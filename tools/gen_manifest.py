#!/usr/bin/env python3
"""Regenerates /verif/MANIFEST.json from the table below (keeps it valid while checks are added)."""
import json, os, subprocess
ROOT = os.path.dirname(os.path.dirname(os.path.abspath(__file__)))

# id -> (technique, level text, level note, design ref)
CHECKS = {
 "C01": ("lock-step reference-model monitor over PRNG-generated operation histories (runtime monitoring)",
         "Sampled executions under an oracle: generated histories on Array and List with hostile indices, slots, ranges and operand kinds are run against a Go-slice model that is compared on every read path after every call. Held-on-what-was-observed, not a proof; histories are sampled and sizes are <= 24.",
         "Trusts the harness model (written from the property statement), the Go runtime and the PRNG; NaN elements excluded (C07/C08).",
         "DESIGN.md 5, 6/C01"),
 "C02": ("lock-step reference-model monitor + exhaustive insertion-order enumeration (runtime monitoring)",
         "Sampled histories on Sets under the default collator and harness-implemented reversed/coarse collators against a sorted de-duplicated model, all read paths and every value of a small universe probed after every call; all insertion orders of 0..6 distinct values enumerated. Held on what was observed.",
         "Only total-preorder collators; for mixed-type Set[any] the expected order is the repository collator's (its laws are C07's).",
         "DESIGN.md 5, 6/C02"),
 "C03": ("lock-step reference-model monitor over generated histories (runtime monitoring)",
         "Sampled histories on Catalogs (string, int, rune, float64, any and pointer keys with equal pointees) against an ordered (key,value) slice; all six views compared after every call; sort/reverse/shuffle must be mapping-preserving permutations. Held on what was observed.",
         "Trusts the harness model; NaN keys excluded; order of MakeFromMap/SortValues(default)/Shuffle is not constrained here.",
         "DESIGN.md 5, 6/C03"),
 "C09": ("exhaustive small-scope execution + random inputs under a permutation/order/termination oracle (runtime monitoring)",
         "Every array of length 0..9 over 4 values is actually sorted by the real sorter with tagged elements under up to seven rankers (incl. inconsistent ones) and checked for permutation, order and a ranker-call bound; random arrays to length 5000; collection Sort/Reverse/Shuffle compared with the sorter. Exhaustive for the small scope, sampled beyond.",
         "The call-count bound 10*n*ceil(log2 n)+100 stands for termination.",
         "DESIGN.md 6/C09"),
 "C13": ("lock-step reference-model monitor over generated histories (runtime monitoring)",
         "Sampled histories (every constructor with 0..2*default+1 values, pushes past capacity, pops past empty) against a slice+capacity model with the size<=capacity invariant checked after every call and constructor. Held on what was observed.",
         "A constructor given more values than the default capacity may panic or enlarge the capacity.",
         "DESIGN.md 5, 6/C13"),
 "C14": ("lock-step reference-model monitor over generated histories (runtime monitoring)",
         "Sampled histories on Maps with four key types against a Go map; unordered views compared as exactly-once multisets after every call; RemoveAll while holding key snapshots and iterators. Held on what was observed.",
         "Trusts the harness model; view order unconstrained.",
         "DESIGN.md 5, 6/C14"),
 "C15": ("exhaustive small-scope execution + random pairs under a mathematical-set oracle (runtime monitoring)",
         "All 4096 pairs of subsets of a 6-value universe x 4 operations are executed for int and string (and for harness collators), plus random pairs over larger and composite universes; results compared with Go-slice set algebra, operands and results re-observed after mutations. Exhaustive for the stated scope, sampled beyond.",
         "Both operands carry the same collator.",
         "DESIGN.md 6/C15"),
 "C16": ("exhaustive small-scope execution + random cases under law/purity oracles (runtime monitoring)",
         "All list pairs (3-value alphabet, length<=4), all catalog pairs over ordered subsets of 4 keys, all key sequences of length<=3 incl. absent/repeated keys are executed and compared with the documented laws; purity and independence probed by writing through either side. Exhaustive for the stated scope, sampled beyond.",
         "A key requested twice appears once at its first position.",
         "DESIGN.md 6/C16"),
 "C17": ("exhaustive move-sequence execution against a cursor model + snapshot random walks (runtime monitoring)",
         "Every move sequence of length 4 (quick) / 6 (thorough) on iterators over 0..4 values is executed against a cursor model; for all seven kinds random walks interleave iterator moves with every mutating operation of the source and a second iterator. Exhaustive for the stated scope, sampled beyond.",
         "ToSlot below -size may clamp to slot 0 or 1; Catalog iterators yield the catalog's own association objects (by design).",
         "DESIGN.md 6/C17"),
 "C18": ("write/observe aliasing probes over a reflection-checked table of entry points (runtime monitoring)",
         "For each API entry point that accepts or returns a Go array, map or sequence the probe writes through one side at every position and observes the other, sizes 0..5; self-operand bulk operations compared with a copy. The table's completeness is checked by reflection at run time.",
         "Association objects shared by a Catalog's views are by design; class functions are covered by C15/C16.",
         "DESIGN.md 6/C18"),
 "C07": ("law monitor over structured value universes + generated triples (runtime monitoring)",
         "All pairs (both orders, three evaluations: same collator, after unrelated calls, fresh collator) and all triples of corner universes for every static type and for `any` closed under the container kinds to depth 3 are actually ranked by the real collator and checked for reflexivity, mirror symmetry, transitivity, agreement with an independent natural order, stability; PRNG-generated related triples with rebuilt operands. Exhaustive over the corner universes, sampled beyond.",
         "For NaN, complex numbers and mixed dynamic types only the preorder laws are required; structs/channels/functions and mixed static element types are outside the universe.",
         "DESIGN.md 6/C07"),
 "C08": ("law monitor over structured universes + rebuilt copies, single-point mutations and a cyclic battery (runtime monitoring)",
         "Same universes as C07 for equivalence laws and compare<=>rank-equal<=>independent structural equality; generated recipes are rebuilt (must compare equal) and mutated at single points (must compare unequal); rings of self-containing collections (length 1..3, all kinds, with siblings) must end with the depth-limit panic and leave the collator usable. Sampled executions under oracles.",
         "The depth-limit message text identifies the documented panic; fatal errors are caught by the child-process workers.",
         "DESIGN.md 6/C08"),
 "C20": ("differential monitor: module-level constructors vs class-level constructors and the parser over a generated form x type matrix (runtime monitoring)",
         "Generated cells of the kind x argument-form x element-type matrix (sizes 0..20, notation absent/first/last, inline and multi-line sources, foreign sequence contexts) are executed and compared by kind, contents, order and capacity with the class-level constructor on the same data and with ParseSource. Sampled executions under an oracle.",
         "Undocumented forms may behave as they like; an Array may reject an empty argument.",
         "DESIGN.md 6/C20"),
 "C10": ("generated values under a canonical-tree round-trip oracle, child-process isolation for fatal errors (runtime monitoring)",
         "Generated any-typed collections over every leaf class are formatted, parsed and re-formatted by the real code; value equality on canonical trees, text fix-point, totality on self-containing and over-deep values (fatal stack overflows are caught because cases run in child processes), purity over call sequences on one notation. Sampled executions under oracles.",
         "NaN/Inf and invalid code points are outside the universe; Map text order is compared as a multiset of lines.",
         "DESIGN.md 6/C10"),
 "C11": ("grammar-derivation generator with an independent evaluator, re-parsing under perturbed schedules, a controlled scheduler exploring scanner/parser schedules depth-first, and the race detector (runtime monitoring)",
         "Sentences derived from the rules of Syntax.cdsn (hash-checked) are parsed by the real parser and compared with an independently computed denotation; a small sub-space is enumerated exhaustively; every random sentence is parsed repeatedly with hook-injected yields/sleeps between scanner and parser goroutines and varying GOMAXPROCS, a sample under the race detector; unrepresentable literals must be rejected. Sampled executions under oracles.",
         "The encoded grammar is the one whose hash is checked; ambiguous literal forms are not generated.",
         "DESIGN.md 6/C11"),
 "C12": ("outcome classifier + goroutine-leak monitor over hostile generated inputs, plus a controlled scheduler over scanner and parser with a logical nobody-left-parked oracle (runtime monitoring)",
         "Random bytes, token soups, mutated valid documents, kind/context mismatches and injected illegal characters are fed to the real ParseSource; every outcome must be a value or a located diagnostic whose location matches the source; runtime.Stack(all) is searched for scanner goroutines after each call; hangs are decided by a stall watchdog plus goroutine dump; Go's coverage-guided fuzzer (go test -fuzz) drives the same oracle. Sampled executions under oracles.",
         "The diagnostic text format identifies a located diagnostic.",
         "DESIGN.md 6/C12"),
 "C04": ("controlled randomized scheduler over build-tag hooks + recorded histories checked offline (porcupine linearizability, interval monitors) + race detector stress (runtime monitoring)",
         "Three execution modes of the real queue: M1 runs every goroutine of generated client programs one at a time at the hook points (random walk / PCT), M2 records larger programs on the real scheduler with injected yields, M3 stresses many goroutines under the Go race detector; every recorded history is checked for FIFO linearizability with porcupine, back-pressure and observer bounds by interval arithmetic, panics and deadlocks. For ten tiny programs every schedule at hook granularity is enumerated depth-first (up to a budget); beyond that interleavings are sampled.",
         "Valid-use programs; delays fall at hook points; races are only reported for accesses that really overlapped.",
         "DESIGN.md 4, 6/C04"),
 "C05": ("controlled randomized scheduler with a logical deadlock oracle (runtime monitoring)",
         "The M1 scheduler explores schedules of well-formed producer/consumer/closer programs (with observers and a RemoveAll caller) and reports a state with unfinished goroutines and none enabled - a lost wake-up - in logical time; constructors with 0..64 initial values run as single-goroutine M1 programs, parsed Queue literals free-running with a stable-dump verdict; tiny programs are explored exhaustively depth-first; the same programs also run on the real scheduler (termination decided by the stable-dump rule). Liveness is restated as 'no stuck state in the explored schedules'.",
         "Goroutines that reach a blocked send/receive are committed to that channel object as they would be in the runtime; schedules are sampled.",
         "DESIGN.md 4.1, 6/C05"),
 "C06": ("controlled randomized scheduler incl. adopted library helper goroutines + stream checker + race detector stress (runtime monitoring)",
         "M1 schedules feeder, library helpers (adopted after the spawn notification), readers and a group waiter for Fork/Split/Split-Join with lengths 0..4, fan-out 2..3, capacity 1..2; per-output sequences, closure, group counter, deadlock and panic are checked; M3 runs the same shapes with thousands of values, fan-out to 8 and lagging/bursty readers under the race detector; nine tiny stream programs are explored depth-first up to a budget. Sampled schedules.",
         "Delays fall at hook points; races only for accesses that really overlapped.",
         "DESIGN.md 4, 6/C06"),
 "C19": ("Go race detector over concurrent per-instance scripts with sequential reference transcripts (runtime monitoring, sanitizer)",
         "In the race-detector build, for every pair of ten operation families 2..16 goroutines run deterministic scripts on instances they created themselves; each concurrent transcript must equal the sequential one and no race report may have a repository frame; every pair is also run cold in a fresh child process (first use concurrent); 320 class accessors are called from 16 goroutines at once and must return the one class. Held on the runs observed.",
         "No harness hook or shared harness state during the workload; races are only reported when accesses really overlap, hence repetitions with varying goroutine counts and GOMAXPROCS.",
         "DESIGN.md 4.3, 6/C19"),
}
NOT_YET = "check not built yet in this round (runtime-monitoring design in DESIGN.md section 6)"

props = [json.loads(l) for l in open(os.path.join(ROOT, "properties.jsonl"))]
hooks_commits = []
try:
    out = subprocess.run(["git", "-C", "/repo", "log", "--format=%H %s"], capture_output=True, text=True).stdout
    hooks_commits = [l.split()[0] for l in out.splitlines() if "verif hooks" in l]
except Exception:
    pass
man = {
 "version": 1,
 "setup_cmd": "./vr --build",
 "hooks": {
  "guard": "verif",
  "enable": "go build -tags verif (the harness module in /verif/harness replaces the repository module with /repo/v4 and is always built with -tags verif by ./vr)",
  "baseline_off_cmd": "cd /repo/v4 && GOFLAGS=-mod=mod GOPROXY=off GOSUMDB=off go test -json -vet=off -count=1 -timeout 25m ./...",
  "source_commits": hooks_commits,
  "add_only": True,
 },
 "engines": [
  {"name": "vcheck", "path": "harness/cmd/vcheck", "serves_properties": sorted(CHECKS),
   "kind_free_text": "Go harness: orchestrator + child-process workers with a pre-execution journal; reference-model, law, history and schedule monitors; race-detector build for the concurrent properties"},
 ],
 "checks": [],
 "not_applicable": [],
 "notes": "Technique family: runtime monitoring and sanitizers. Every check rebuilds the harness against /repo's working tree (replace directive) with -tags verif. KNOWN_FINDINGS.json lists repaired (fixed:) and open findings. See DESIGN.md.",
}
for p in props:
    i = p["id"]
    if i in CHECKS:
        tech, text, note, ref = CHECKS[i]
        man["checks"].append({
         "property_id": i,
         "quick_cmd": "./vr %s quick" % i,
         "thorough_cmd": "./vr %s thorough" % i,
         "evidence_file": "/verif/evidence/%s.json" % i,
         "replay_cmd_template": "./vr %s --replay {path}" % i,
         "engine": "vcheck",
         "level_claimed": {"category": "exploration", "text": text, "design_ref": ref},
         "level_note": note,
         "technique": tech,
        })
    else:
        man["not_applicable"].append({"property_id": i, "reason": NOT_YET})
json.dump(man, open(os.path.join(ROOT, "MANIFEST.json"), "w"), indent=1)
print("MANIFEST.json:", len(man["checks"]), "checks,", len(man["not_applicable"]), "not claimed")
