#!/bin/bash
# tools/hookdrop.sh   drops each verif hook call of the repository in turn (the properties still hold: the
# hooks are no-ops for the library) and runs the checks that use hooks; none may report a violation.
set -u
export GOFLAGS=-mod=mod GOPROXY=off GOSUMDB=off GOTOOLCHAIN=local
cd /verif
for f in v4/collection/queue.go v4/cdcn/scanner.go; do
  for ln in $(grep -n "verifPoint(\|verifSpawn()\|defer verifEnd()" /repo/$f | cut -d: -f1); do
    what=$(sed -n "${ln}p" /repo/$f | tr -d '\t')
    sed -i "${ln}s/.*/\t_ = 0/" /repo/$f
    if ! (cd /repo/v4 && go build -tags verif ./... 2>/dev/null); then echo "$f:$ln $what: does not compile, skipped"; git -C /repo checkout -- .; continue; fi
    res=""
    for id in C04 C05 C06 C11 C12; do
      out=$(./vr $id quick 2>&1); rc=$?
      v=$(echo "$out" | grep -c '^VIOLATION')
      i=$(echo "$out" | grep -c '^INCONCLUSIVE')
      res="$res $id:rc=$rc,viol=$v,inc=$i"
      [ $v -gt 0 ] && echo "$out" | grep -A1 '^VIOLATION' | head -6
    done
    echo "$f:$ln [$what] ->$res"
    git -C /repo reset -q; git -C /repo checkout -- .
  done
done
git -C /verif checkout -- evidence 2>/dev/null
echo HOOKDROP-DONE
