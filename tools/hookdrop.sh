#!/bin/bash
# tools/hookdrop.sh   drops each verif hook call of the repository in turn (the properties still hold: the
# hooks are no-ops for the library) and runs the checks that use hooks; none may report a violation.
# Env REPO / VROOT select an alternate universe (tools/altuniverse.sh); default /repo and /verif.
set -u
export GOFLAGS=-mod=mod GOPROXY=off GOSUMDB=off GOTOOLCHAIN=local
REPO=${REPO:-/repo}; VROOT=${VROOT:-/verif}
cd $VROOT
for f in v4/collection/queue.go v4/cdcn/scanner.go; do
  for ln in $(grep -n "verifPoint(\|verifSpawn()\|defer verifEnd()" $REPO/$f | cut -d: -f1); do
    what=$(sed -n "${ln}p" $REPO/$f | tr -d '\t')
    sed -i "${ln}s/.*/\t_ = 0/" $REPO/$f
    if ! (cd $REPO/v4 && go build -tags verif ./... 2>/dev/null); then echo "$f:$ln $what: does not compile, skipped"; git -C $REPO checkout -- .; continue; fi
    res=""
    for id in C04 C05 C06 C11 C12; do
      out=$(./vr $id quick 2>&1); rc=$?
      v=$(echo "$out" | grep -c '^VIOLATION')
      i=$(echo "$out" | grep -c '^INCONCLUSIVE')
      res="$res $id:rc=$rc,viol=$v,inc=$i"
      [ $v -gt 0 ] && echo "$out" | grep -A1 '^VIOLATION' | head -6
    done
    echo "$f:$ln [$what] ->$res"
    git -C $REPO reset -q; git -C $REPO checkout -- .
  done
done
[ $VROOT = /verif ] && git -C /verif checkout -- evidence 2>/dev/null
echo HOOKDROP-DONE
