#!/bin/bash
# tools/altuniverse.sh <dir>   creates <dir>/repo (worktree of /repo HEAD) and <dir>/verif (copy of /verif whose
# harness builds against <dir>/repo/v4), so that mutation experiments do not touch /repo and /verif.
# Remove with: git -C /repo worktree remove --force <dir>/repo; rm -rf <dir>
set -eu
export GOFLAGS=-mod=mod GOPROXY=off GOSUMDB=off GOTOOLCHAIN=local
ALT=$1
rm -rf $ALT; mkdir -p $ALT
git -C /repo worktree prune
git -C /repo worktree add -q --detach $ALT/repo HEAD
rsync -a --exclude .build --exclude replays --exclude .git /verif/ $ALT/verif/
sed -i "s#=> /repo/v4#=> $ALT/repo/v4#" $ALT/verif/harness/go.mod
cd $ALT/verif && ./vr --build
echo "alt universe ready in $ALT"
