#!/bin/bash
# Re-runs every seeded change against the checks that are recorded as detecting it, in a scratch
# universe (/tmp/alt: a worktree of /repo HEAD + a copy of /verif whose harness points at it), so that
# /repo and /verif stay untouched.  Prints one line per seeded change; "LOST" = no longer detected.
export GOFLAGS=-mod=mod GOPROXY=off GOSUMDB=off GOTOOLCHAIN=local
# a build cache of its own: this script empties it from time to time, which must not disturb other builds
export GOCACHE=${GOCACHE_REGRESS:-/root/.cache/go-build-regress}
ALT=${ALT:-/tmp/alt}
rm -rf $ALT; mkdir -p $ALT
git -C /repo worktree prune
git -C /repo worktree add -q --detach $ALT/repo HEAD || exit 3
rsync -a --exclude .build --exclude replays --exclude .git /verif/ $ALT/verif/
sed -i "s#=> /repo/v4#=> $ALT/repo/v4#" $ALT/verif/harness/go.mod
cd $ALT/verif && ./vr --build || exit 3
n=0
for d in /verif/seeded/C*-[A-Z]; do
  name=$(basename $d)
  [ -n "${FROM:-}" ] && [[ "$name" < "$FROM" ]] && continue
  n=$((n+1)); [ $((n % 8)) -eq 0 ] && go clean -cache   # mutated trees fill the build cache quickly
  checks=$(python3 -c "import json;print(' '.join(json.load(open('$d/meta.json')).get('detected_by',[])))")
  [ -z "$checks" ] && { echo "$name (not claimed)"; continue; }
  git -C $ALT/repo apply $d/patch.diff 2>/dev/null || { echo "$name PATCH-DOES-NOT-APPLY"; git -C $ALT/repo reset -q; git -C $ALT/repo checkout -- .; continue; }
  first=${checks%% *}
  ./vr $first quick > /tmp/sr.log 2>&1; rc=$?
  if [ $rc -eq 1 ]; then echo "$name detected by $first"; else
    hit=""
    for c in $checks; do [ "$c" = "$first" ] && continue; ./vr $c quick > /tmp/sr.log 2>&1 && continue; [ $? -eq 1 ] && { hit=$c; break; }; done
    [ -n "$hit" ] && echo "$name detected by $hit (not by $first any more)" || echo "$name LOST (checks: $checks, exit $rc)"
  fi
  git -C $ALT/repo reset -q; git -C $ALT/repo checkout -- .
done
git -C /repo worktree remove --force $ALT/repo; rm -rf $ALT; go clean -cache
echo DONE
