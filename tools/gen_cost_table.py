#!/usr/bin/env python3
"""Regenerates the cost table of DESIGN.md section 11 from two sweep logs
(lines printed by ./vr: '<ID> <tier> seed=S: N cases, D distinct non-trivial, ... , T s -> ...').
usage: gen_cost_table.py <quick log> <thorough log>"""
import re, sys
def read(path):
    out = {}
    for l in open(path):
        m = re.match(r'(C\d+) (\w+) seed=(\d+): (\d+) cases, (\d+) distinct non-trivial.*?, ([\d.]+)s ->', l)
        if m and m.group(1) not in out:
            out[m.group(1)] = (int(m.group(4)), int(m.group(5)), float(m.group(6)))
    return out
q, t = read(sys.argv[1]), read(sys.argv[2])
def dur(s): return "%.0f s" % s if s < 90 else "%.1f min" % (s / 60)
def num(n): return "%.1f M" % (n / 1e6) if n >= 1e6 else ("%d k" % (n / 1000) if n >= 10000 else str(n))
race = {"C04": "yes", "C06": "yes", "C11": "sample", "C19": "yes"}
rows = ["| property | quick | thorough | cases quick / thorough | distinct non-trivial quick / thorough | race build |", "|---|---|---|---|---|---|"]
for i in range(1, 21):
    k = "C%02d" % i
    if k in q and k in t:
        rows.append("| %s | %s | %s | %s / %s | %s / %s | %s |" % (k, dur(q[k][2]), dur(t[k][2]), num(q[k][0]), num(t[k][0]), num(q[k][1]), num(t[k][1]), race.get(k, "–")))
import os
p = os.path.join(os.path.dirname(os.path.dirname(os.path.abspath(__file__))), "DESIGN.md")
s = open(p).read()
i = s.index("| property | quick | thorough |")
j = s.index("\n\n", i)
s = s[:i] + "\n".join(rows) + s[j:]
open(p, "w").write(s)
print(len(rows) - 2, "rows")
