#!/bin/bash
# tools/benign_regress.sh [alt-dir]  re-runs every semantics-preserving change of seeded/benign against the
# checks listed for it in seeded/benign/README.md, in an alternate universe (tools/altuniverse.sh);
# prints one line per change; any "alarms:" other than "none" is a false alarm to be corrected.
export GOFLAGS=-mod=mod GOPROXY=off GOSUMDB=off GOTOOLCHAIN=local
ALT=${1:-/tmp/altb}
[ -d $ALT/repo ] || /verif/tools/altuniverse.sh $ALT >/dev/null || exit 3
rsync -a --exclude go.mod --exclude go.sum /verif/harness/ $ALT/verif/harness/; cp /verif/vr $ALT/verif/vr; cp /verif/KNOWN_FINDINGS.json $ALT/verif/
cd $ALT/verif
last=""
for p in /verif/seeded/benign/*.patch.diff; do
  x=$(basename $p .patch.diff)
  checks=$(grep "^| $x |" /verif/seeded/benign/README.md | awk -F'|' '{print $4}' | sed 's/(.*//')
  case "$checks" in *same*) checks=$last;; esac
  last=$checks
  git -C $ALT/repo apply --3way $p 2>/dev/null || { echo "$x: patch does not apply"; git -C $ALT/repo reset -q; git -C $ALT/repo checkout -- .; continue; }
  (cd $ALT/repo/v4 && go build ./... && timeout 600 go test -vet=off -count=1 ./... >/dev/null 2>&1) && suite=passes || suite=FAILS
  res=""
  for c in $checks; do
    ./vr $c quick > $ALT/bc.log 2>&1; rc=$?
    [ $rc -ne 0 ] && res="$res $c(exit $rc: $(grep -m2 'signature=' $ALT/bc.log | sed 's/.*signature=//; s/ occ.*//' | tr '\n' ' '))"
    inc=$(grep -c '^INCONCLUSIVE' $ALT/bc.log); [ $inc -gt 0 ] && res="$res $c(inconclusive x$inc)"
  done
  git -C $ALT/repo reset -q; git -C $ALT/repo checkout -- .
  echo "$x: suite $suite; checks: $checks; alarms:${res:- none}"
done
echo BENIGN-DONE
