#!/bin/bash
# tools/mut.sh '<sed-expr>' <file-relative-to-/repo> <ID>...   apply an in-place sed mutation to /repo, run checks, undo.
# tools/mut.sh --patch <patch.diff> <ID>...
set -u
export GOFLAGS=-mod=mod GOPROXY=off GOSUMDB=off GOTOOLCHAIN=local
if [ "$1" = "--patch" ]; then
  git -C /repo apply "$2" || { echo "patch does not apply"; exit 3; }
  shift 2
else
  sed -i "$1" "/repo/$2" || exit 3
  shift 2
fi
git -C /repo diff --stat | tail -1
(cd /repo/v4 && go build ./... && go test -vet=off -count=1 ./... 2>&1 | grep -v '^ok' | head -5; echo "repo tests done")
for id in "$@"; do
  /verif/vr "$id" quick 2>&1 | grep -E "^(VIOLATION|INCONCLUSIVE|KNOWN|C[0-9]+ |BUILD)|signature=" | cut -c1-220 | head -12
done
git -C /repo reset -q; git -C /repo checkout -- .
git -C /verif checkout -- evidence 2>/dev/null
