#!/bin/bash
# tools/seedcheck.sh <ID> <A|B|...> [check IDs...]
# Confirms a sub-agent's seeded change (suite passes with it, demo fails with it, demo passes without it)
# in a scratch worktree, then runs the given checks (default: <ID>) against /repo with the change applied
# and undoes it.  Keeps the change under /verif/seeded/<ID>-<X>/ when confirmed.
set -u
export GOFLAGS=-mod=mod GOPROXY=off GOSUMDB=off GOTOOLCHAIN=local
# Env: REPO / VROOT select an alternate universe (a worktree of /repo HEAD and a copy of /verif whose
# harness go.mod points at it; see tools/altuniverse.sh); results are always stored under /verif/seeded.
REPO=${REPO:-/repo}; VROOT=${VROOT:-/verif}
ID=$1; X=$2; shift 2
CHECKS=${*:-$ID}
OUT=${SRC:-/tmp/mut/$ID.out}
NAME=${NAME:-$X}
PATCH=$OUT/$X.patch.diff
DEMO=$OUT/${X}_demo_test.go
[ -f "$PATCH" ] && [ -f "$DEMO" ] || { echo "missing $PATCH or $DEMO"; exit 3; }
WT=/tmp/sc-$ID-$NAME
LOGP=/tmp/sc-$ID-$NAME
git -C /repo worktree remove --force $WT 2>/dev/null; rm -rf $WT
git -C /repo worktree add -q --detach $WT HEAD || exit 3
cleanup() { git -C /repo worktree remove --force $WT 2>/dev/null; rm -rf $WT; }
trap cleanup EXIT
cd $WT
if ! git apply --3way "$PATCH" 2>$LOGP-apply.err; then echo "PATCH DOES NOT APPLY: $(head -3 $LOGP-apply.err)"; exit 4; fi
git diff HEAD --stat | tail -1
cd v4
go build ./... || { echo "DOES NOT COMPILE"; exit 4; }
SUITE=$(go test -vet=off -count=1 ./... 2>&1 | grep -v '^ok' | head -5)
[ -z "$SUITE" ] && echo "suite: passes with the change" || { echo "suite FAILS with the change: $SUITE"; exit 4; }
mkdir -p demo && cp "$DEMO" demo/demo_test.go
if timeout 300 go test -vet=off -count=1 ./demo/ >$LOGP-demo1.log 2>&1; then echo "demo PASSES with the change (not a confirmed break)"; exit 4; else echo "demo: fails with the change"; fi
# (never git stash here: the stash list is shared by all worktrees of a repository, /repo included)
(cd $WT && git reset -q && git checkout -q -- . 2>/dev/null; git status --short | grep -v demo | head -3)
if timeout 300 go test -vet=off -count=1 ./demo/ >$LOGP-demo2.log 2>&1; then echo "demo: passes without the change"; else echo "demo FAILS without the change:"; tail -5 $LOGP-demo2.log; exit 4; fi
cd $VROOT
# now against the repository itself
git -C $REPO apply --3way "$PATCH" || { echo "cannot apply to $REPO"; exit 4; }
DET=""
for c in $CHECKS; do
  ./vr $c quick > $LOGP-check.log 2>&1; rc=$?
  sig=$(grep -m3 'signature=' $LOGP-check.log | sed 's/ occurrences.*//' | tr -d ' ' | tr '\n' ' ')
  echo "check $c: exit $rc $sig"
  [ $rc -eq 1 ] && DET="$DET $c"
done
git -C $REPO reset -q; git -C $REPO checkout -q -- . ; git -C $REPO status --short | head -3
[ $VROOT = /verif ] && git -C /verif checkout -q -- evidence 2>/dev/null
D=/verif/seeded/$ID-$NAME
mkdir -p $D && cp "$PATCH" $D/patch.diff && cp "$DEMO" $D/demo_test.go
python3 - "$OUT/$X.meta.json" "$D/meta.json" "$DET" "$CHECKS" <<'PY'
import json,sys
src,dst,det,checks=sys.argv[1:5]
try: m=json.load(open(src))
except Exception as e: m={"note":"agent meta unreadable: %s"%e}
m["confirmed_by_me"]="scratch worktree of /repo HEAD: go build ok; existing suite passes with the change; demo (v4/demo/demo_test.go) fails with the change and passes without it (tools/seedcheck.sh)"
m["checks_run"]=checks.split()
m["detected_by"]=det.split()
json.dump(m,open(dst,"w"),indent=1)
PY
echo "RESULT $ID-$NAME detected_by:${DET:- NONE}"
