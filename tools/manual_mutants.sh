#!/bin/bash
# Applies one-line mutations (the "Breaks it is built to catch" bullets of DESIGN.md section 6) to /repo,
# runs the existing suite and the named quick checks, undoes the mutation, and writes a table.
export GOFLAGS=-mod=mod GOPROXY=off GOSUMDB=off GOTOOLCHAIN=local
OUT=/verif/seeded/MANUAL_MUTANTS.md
if [ -z "${START:-}" ]; then
echo "# One-line mutations tried by hand (tools/manual_mutants.sh)" > $OUT
echo >> $OUT
echo "| # | file | mutation (sed) | existing suite | checks run | fired |" >> $OUT
echo "|---|---|---|---|---|---|" >> $OUT
fi
n=0
mut() { # file sed checks...
  f=$1; e=$2; shift 2
  n=$((n+1))
  [ $n -lt ${START:-1} ] && return
  sed -i "$e" /repo/v4/$f
  if git -C /repo diff --quiet; then echo "| $n | $f | \`$e\` | (sed matched nothing) | | |" >> $OUT; return; fi
  if ! (cd /repo/v4 && go build ./... 2>/dev/null); then suite="does not compile"; else
    if (cd /repo/v4 && timeout 120 go test -vet=off -count=1 -timeout 60s ./... >/dev/null 2>&1); then suite="passes"; else suite="FAILS"; fi; fi
  fired=""
  if [ "$suite" != "does not compile" ]; then
    for c in "$@"; do
      /verif/vr $c quick > /tmp/mm.log 2>&1; rc=$?
      [ $rc -eq 1 ] && fired="$fired $c($(grep -m1 'signature=' /tmp/mm.log | sed 's/.*signature=//; s/ occ.*//'))"
      [ $rc -ne 0 ] && [ $rc -ne 1 ] && fired="$fired $c(exit $rc)"
    done
  fi
  git -C /repo reset -q; git -C /repo checkout -- .
  echo "| $n | $f | \`${e//|/\\|}\` | $suite | $* | ${fired:-NONE} |" >> $OUT
  echo "$n $f $suite -> ${fired:-NONE}"
}
mut collection/array.go 's/return index + size$/return index + size - 1/' C01
mut collection/list.go 's/return index + size + 1$/return index + size/' C01
mut collection/list.go 's/\t\tif counter == 0 {/\t\tif counter == 1 {/' C01
mut collection/list.go 's/\t\tif !inserted \&\& index == int(slot) {/\t\tif !inserted \&\& index+1 == int(slot) {/' C01 C18
mut collection/set.go 's/\treturn last, false$/\treturn first, false/' C02
mut collection/set.go 's/\t\tcase age.LesserRank:$/\t\tcase age.GreaterRank + 9:/' C02
mut collection/catalog.go 's/\t\tassociation.SetValue(value)$/\t\t_ = value/' C03
mut collection/catalog.go 's/\tv.keys_ = map\[K\]AssociationLike\[K, V\]{}$/\t_ = v.keys_/' C03
mut collection/queue.go 's/var available = make(chan bool, capacity)$/var available = make(chan bool, capacity+1)/' C04 C05
mut collection/queue.go 's/head = v.values_.RemoveValue(1)$/head = v.values_.RemoveValue(-1)/' C04 C06
mut collection/queue.go 's/\tclose(v.available_)$/\t_ = v.available_/' C05 C04
mut collection/queue.go '0,/\t\t\tif !iterator.HasNext() {/s//\t\t\tif iterator.HasNext() \&\& false {/' C06
mut agent/collator.go 's/\tif first < second {\n\t\t\/\/ The first string/XX/' C07
mut agent/collator.go '/func (v \*collator_\[V\]) rankBooleans/,/^}/s/return LesserRank/return GreaterRank/' C07
mut agent/collator.go '/The shorter Go array is ranked before/,+1s/return LesserRank/return EqualRank/' C07 C08
mut agent/collator.go 's/\tif second.Len() != size {$/\tif second.Len() < size {/' C08
mut agent/collator.go '/func (v \*collator_\[V\]) compareMaps/,/^}/s/if first.Len() != second.Len() {/if first.Len() > second.Len() {/' C08
mut agent/sorter.go 's/\tcopy(values, buffer) \/\/ Both Go arrays are now sorted.$/\t_ = buffer/' C09
mut agent/sorter.go '/Find the right side/,+4s/if right > length {/if right > length+1 {/' C09
mut agent/sorter.go 's/ranker_(left\[leftIndex\], right\[rightIndex\]) == LesserRank {/ranker_(left[leftIndex], right[rightIndex]) != GreaterRank \&\& leftIndex > 0 {/' C09
mut cdcn/formatter.go 's/v.appendString("0x" + stc.FormatUint(unsigned, 16))/v.appendString("0x" + sts.ToUpper(stc.FormatUint(unsigned, 16)))/' C10
mut cdcn/formatter.go 's/\t\tmantissa += ".0"$/\t\tmantissa += ""/' C10
mut cdcn/formatter.go 's/\tv.appendString(stc.Quote(string_))$/\tv.appendString("\\"" + string_ + "\\"")/' C10
mut cdcn/scanner.go 's/\tsign_        = "\[+-\]"$/\tsign_        = "[-]"/' C11 C10
mut cdcn/scanner.go 's/\tunicode_     = "x" + base16_ + "{2}|u" + base16_ + "{4}|U" + base16_ + "{8}"/\tunicode_     = "x" + base16_ + "{2}|u" + base16_ + "{4}"/' C11 C10
mut cdcn/scanner.go 's/\t\t\tv.position_ = v.indexOfLastEOL(token)$/\t\t\tv.position_ = v.indexOfLastEOL(token) + 1/' C12
mut cdcn/parser.go 's/\tstackSize_: 4,$/\tstackSize_: 1,/' C11 C12
mut cdcn/parser.go 's/\tqueueSize_: 16,$/\tqueueSize_: 1,/' C11 C12
mut collection/stack.go 's/if uint(v.values_.GetSize()) == v.capacity_ {/if uint(v.values_.GetSize()) > v.capacity_ {/' C13
mut collection/stack.go 's/\tv.values_.InsertValue(0, value)$/\tv.values_.AppendValue(value)/' C13
mut collection/map.go '/func (v map_\[K, V\]) RemoveValue(key K) V {/,/^}/s/\t\tdelete(v, key)/\t\t_ = key/' C14
mut collection/map.go '/func (c \*mapClass_\[K, V\]) MakeFromArray/,/^}/s/\t\tduplicate\[key\] = value/\t\tif _, dup := duplicate[key]; !dup {\n\t\t\tduplicate[key] = value\n\t\t}/' C14
mut collection/set.go '/func (c \*setClass_\[V\]) Sans/,/^}/s/result.RemoveValues(second)/result.RemoveValues(second)\n\tsecond.RemoveValues(first)/' C15
mut collection/catalog.go '/func (c \*catalogClass_\[K, V\]) Merge/,/^}/s/var catalog = c.MakeFromSequence(first)/var catalog = first/' C16 C18
mut agent/iterator.go 's/\tif slot > v.size_ {$/\tif slot > v.size_+1 {/' C17
mut agent/iterator.go '/func (v \*iterator_\[V\]) GetPrevious/,/^}/s/if v.slot_ > 0 {/if v.slot_ > 1 {/' C17
mut collection/list.go '/func (v \*list_\[V\]) AsArray/,/^}/s/return v.values_.AsArray()/return []V(v.values_.(array_[V]))/' C18 C17
mut Module.go '/func List\[V any\]/,/^}/s/\t\t\tlist.AppendValue(value)/\t\t\tlist.InsertValue(0, value)/' C20
mut Module.go '/func Map\[K comparable, V any\]/,/^}/s/case len(mappings) > 0:/case len(mappings) > 1:/' C20
cat $OUT | tail -45
