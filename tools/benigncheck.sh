#!/bin/bash
# tools/benigncheck.sh <dir with X.patch.diff> <X> <checks...>: a semantics-preserving change must leave every check green.
export GOFLAGS=-mod=mod GOPROXY=off GOSUMDB=off GOTOOLCHAIN=local
DIR=$1; X=$2; shift 2
git -C /repo apply --3way "$DIR/$X.patch.diff" 2>/dev/null || { echo "$X: patch does not apply"; git -C /repo reset -q; git -C /repo checkout -- .; exit 3; }
(cd /repo/v4 && go build ./... && timeout 300 go test -vet=off -count=1 ./... >/dev/null 2>&1) && suite=passes || suite=FAILS
res=""
for c in "$@"; do
  /verif/vr $c quick > /tmp/bc.log 2>&1; rc=$?
  if [ $rc -ne 0 ]; then res="$res $c(exit $rc: $(grep -m2 'signature=' /tmp/bc.log | sed 's/.*signature=//; s/ occ.*//' | tr '\n' ' '))"; fi
done
git -C /repo reset -q; git -C /repo checkout -- .
git -C /verif checkout -q -- evidence 2>/dev/null
echo "$(basename $DIR) $X: suite $suite; alarms:${res:- none}"
