// Package fuzz holds the coverage-guided tier of C12 (go test -fuzz): the same
// outcome classifier as the generated families, driven by Go's native fuzzer.
package fuzz

import (
	"testing"

	"verif/harness/internal/cdcnmon"
)

func FuzzParse(f *testing.F) {
	for _, s := range cdcnmon.FuzzSeeds() {
		f.Add(s)
	}
	f.Fuzz(func(t *testing.T, src string) {
		if len(src) > 4096 {
			return
		}
		o := cdcnmon.Parse(src)
		if sig, msg := cdcnmon.ClassifyOutcome(src, o); sig != "" {
			t.Fatalf("C12 %s: %s", sig, msg)
		}
		if leak := cdcnmon.LeakAfterParse(); leak != "" {
			t.Fatalf("C12 leak/scanner-goroutine-blocked: %s", leak)
		}
	})
}
