// vcheck: orchestrator and worker of the runtime-monitoring checks.
//
//	vcheck run <ID> <quick|thorough>     (VERIF_SEED, VERIF_TIER honoured)
//	vcheck replay <file>
//	vcheck worker …  /  vcheck repro …   (internal)
package main

import (
	"fmt"
	"os"
	"strconv"

	"verif/harness/internal/conc"
	"verif/harness/internal/core"
	_ "verif/harness/internal/props"
)

func main() {
	if len(os.Args) < 2 {
		fmt.Fprintln(os.Stderr, "usage: vcheck run <ID> <tier> | replay <file> | list")
		os.Exit(2)
	}
	switch os.Args[1] {
	case "run":
		if len(os.Args) < 3 {
			os.Exit(2)
		}
		tier := "quick"
		if len(os.Args) > 3 {
			tier = os.Args[3]
		}
		if t := os.Getenv("VERIF_TIER"); t == "quick" || t == "thorough" {
			tier = t
		}
		if tier != "quick" && tier != "thorough" {
			fmt.Fprintln(os.Stderr, "tier must be quick or thorough")
			os.Exit(2)
		}
		var seed uint64 = 1
		if s := os.Getenv("VERIF_SEED"); s != "" {
			if v, err := strconv.ParseUint(s, 10, 64); err == nil {
				seed = v
			} else if v, err := strconv.ParseInt(s, 10, 64); err == nil {
				seed = uint64(v)
			}
		}
		os.Exit(core.RunCheck(os.Args[2], tier, seed))
	case "worker":
		os.Exit(core.WorkerMain(os.Args[2:]))
	case "repro":
		os.Exit(core.ReproMain(os.Args[2:]))
	case "cold":
		os.Exit(conc.ColdMain(os.Args[2:]))
	case "replay":
		os.Exit(core.ReplayMain(os.Args[2:]))
	case "list":
		for _, id := range core.AllIDs() {
			fmt.Println(id)
		}
	default:
		fmt.Fprintln(os.Stderr, "unknown command", os.Args[1])
		os.Exit(2)
	}
}
