module verif/harness

go 1.22

require (
	github.com/anishathalye/porcupine v1.3.0
	github.com/craterdog/go-collection-framework/v4 v4.0.0
)

replace github.com/craterdog/go-collection-framework/v4 => /repo/v4
