package rel

import (
	"fmt"
	"runtime"
	"runtime/debug"
	"strings"

	age "github.com/craterdog/go-collection-framework/v4/agent"
	col "github.com/craterdog/go-collection-framework/v4/collection"

	"verif/harness/internal/core"
)

// ---- C08: self-containing values end with the documented depth-limit panic ----

const depthMessage = "maximum traversal depth"

// holder is a collection of `any` that can be linked into a cycle.
type holder struct {
	kind string
	val  any
	put  func(v any) // stores v inside
}

func newHolder(kind string, siblings int) *holder {
	h := &holder{kind: kind}
	sib := func(i int) any { return int64(i) }
	switch kind {
	case "list":
		l := col.List[any](notation).Make()
		for i := 0; i < siblings; i++ {
			l.AppendValue(sib(i))
		}
		h.val, h.put = l, func(v any) { l.AppendValue(v) }
	case "array":
		a := col.Array[any](notation).Make(uint(siblings + 1))
		for i := 0; i < siblings; i++ {
			a.SetValue(i+1, sib(i))
		}
		h.val, h.put = a, func(v any) { a.SetValue(-1, v) }
	case "stack":
		s := col.Stack[any](notation).Make()
		for i := 0; i < siblings; i++ {
			s.AddValue(sib(i))
		}
		h.val, h.put = s, func(v any) { s.AddValue(v) }
	case "queue":
		q := col.Queue[any](notation).Make()
		for i := 0; i < siblings; i++ {
			q.AddValue(sib(i))
		}
		h.val, h.put = q, func(v any) { q.AddValue(v) }
	case "catalog":
		c := col.Catalog[any, any](notation).Make()
		for i := 0; i < siblings; i++ {
			c.SetValue(fmt.Sprint("k", i), sib(i))
		}
		h.val, h.put = c, func(v any) { c.SetValue("self", v) }
	case "map":
		m := col.Map[any, any](notation).Make()
		for i := 0; i < siblings; i++ {
			m.SetValue(fmt.Sprint("k", i), sib(i))
		}
		h.val, h.put = m, func(v any) { m.SetValue("self", v) }
	case "association":
		// an association reaches its value through a getter, not through an array view
		a := col.Association[string, any](notation).Make("k", nil)
		h.val, h.put = a, func(v any) { a.SetValue(v) }
	case "slice":
		s := make([]any, siblings+1)
		for i := 0; i < siblings; i++ {
			s[i] = sib(i)
		}
		h.val, h.put = s, func(v any) { s[siblings] = v }
	case "gomap":
		m := map[string]any{}
		for i := 0; i < siblings; i++ {
			m[fmt.Sprint("k", i)] = sib(i)
		}
		h.val, h.put = m, func(v any) { m["self"] = v }
	}
	return h
}

var CyclicKinds = []string{"list", "array", "stack", "queue", "catalog", "map", "slice", "gomap", "association"}

// buildCycle links `length` holders into a ring and returns the first.
func buildCycle(kinds []string, siblings int) any {
	hs := make([]*holder, len(kinds))
	for i, k := range kinds {
		hs[i] = newHolder(k, siblings)
	}
	for i := range hs {
		hs[i].put(hs[(i+1)%len(hs)].val)
	}
	return hs[0].val
}

// CountingSeq is a harness-defined self-containing sequence: the collator
// treats anything with an AsArray method as a sequence.
type CountingSeq struct {
	Calls int
	Extra []any
}

func (s *CountingSeq) AsArray() []any {
	s.Calls++
	if s.Calls > 100000 {
		panic("CountingSeq: AsArray called more than 100000 times")
	}
	return append([]any{s}, s.Extra...)
}

func expectDepthPanic(what string, f func()) string {
	var msg string
	panicked := false
	isRuntimeError := false
	func() {
		defer func() {
			if e := recover(); e != nil {
				panicked = true
				msg = fmt.Sprint(e)
				_, isRuntimeError = e.(runtime.Error)
			}
		}()
		f()
	}()
	if !panicked {
		return what + " returned normally on a self-containing value"
	}
	if !strings.Contains(strings.ToLower(msg), "depth") || isRuntimeError {
		return what + " panicked with something other than a depth-limit message: " + trunc(msg)
	}
	return ""
}

// acyclicBattery checks that a collator still works.
func acyclicBattery(coll age.CollatorLike[any]) string {
	l1 := col.List[any](notation).MakeFromArray([]any{int64(1), []any{int64(2), "x"}})
	l2 := col.List[any](notation).MakeFromArray([]any{int64(1), []any{int64(2), "x"}})
	l3 := col.List[any](notation).MakeFromArray([]any{int64(1), []any{int64(2), "y"}})
	var d string
	func() {
		defer func() {
			if e := recover(); e != nil {
				d = "the collator panics on acyclic values afterwards: " + trunc(fmt.Sprint(e))
			}
		}()
		switch {
		case !coll.CompareValues(l1, l2):
			d = "afterwards CompareValues says that two equal acyclic lists differ"
		case coll.CompareValues(l1, l3):
			d = "afterwards CompareValues says that two different acyclic lists are equal"
		case coll.RankValues(l1, l3) != age.LesserRank || coll.RankValues(l3, l1) != age.GreaterRank || coll.RankValues(l1, l2) != age.EqualRank:
			d = "afterwards RankValues misorders acyclic lists"
		case coll.RankValues([]any{int64(1)}, []any{int64(1), int64(0)}) != age.LesserRank:
			d = "afterwards RankValues misorders acyclic Go arrays"
		case !coll.CompareValues(map[string]any{"a": []any{int64(1)}}, map[string]any{"a": []any{int64(1)}}):
			d = "afterwards CompareValues says that two equal acyclic maps differ"
		}
	}()
	return d
}

// shallowBattery: what a collator with a small depth limit must still do -
// scalars always, and nests of at most half the limit (the statement does not
// fix where exactly a custom limit bites).
func shallowBattery(coll age.CollatorLike[any], maximum int) string {
	var d string
	func() {
		defer func() {
			if e := recover(); e != nil {
				d = fmt.Sprintf("a collator with maximum %d panics on values nested %d deep afterwards: %s", maximum, maximum/2, trunc(fmt.Sprint(e)))
			}
		}()
		if !coll.CompareValues(int64(7), int64(7)) || coll.CompareValues("a", "b") || coll.RankValues(int64(1), int64(2)) != age.LesserRank {
			d = "afterwards scalars are compared or ranked wrongly"
			return
		}
		levels := maximum / 2
		if levels < 1 {
			return
		}
		nest := func(leaf any) any {
			var v any = []any{leaf}
			for i := 1; i < levels; i++ {
				v = []any{int64(i), v}
			}
			return v
		}
		a, b, x := nest("p"), nest("p"), nest("q")
		switch {
		case !coll.CompareValues(a, b):
			d = "afterwards two equal shallow nests compare unequal"
		case coll.CompareValues(a, x):
			d = "afterwards two different shallow nests compare equal"
		case coll.RankValues(a, x) != age.LesserRank || coll.RankValues(x, a) != age.GreaterRank || coll.RankValues(a, b) != age.EqualRank:
			d = "afterwards shallow nests are misordered"
		}
	}()
	return d
}

// CyclicCases: kinds^length for length 1..3 would be 9+81+729; the battery
// enumerates all rings of length 1 and 2 and a seeded sample of length 3,
// each with 0, 1 and 3 siblings.
func CyclicCases() int { return (9 + 81 + 64) * 3 }

func RunCyclic(c *core.Ctx, idx int) {
	sib := []int{0, 1, 3}[idx%3]
	k := idx / 3
	var kinds []string
	nk := len(CyclicKinds)
	switch {
	case k < nk:
		kinds = []string{CyclicKinds[k]}
	case k < nk+nk*nk:
		k -= nk
		kinds = []string{CyclicKinds[k/nk], CyclicKinds[k%nk]}
	default:
		kinds = []string{CyclicKinds[c.Rng.Intn(nk)], CyclicKinds[c.Rng.Intn(nk)], CyclicKinds[c.Rng.Intn(nk)]}
	}
	cs := map[string]any{"ring": kinds, "siblings": sib}
	sig := fmt.Sprintf("cyclic/len%d", len(kinds))
	v := buildCycle(kinds, sib)
	w := buildCycle(kinds, sib) // an independent, identically shaped ring
	coll := age.Collator[any]().Make()
	custom := 0
	if idx%4 == 3 {
		// a collator with a depth limit of the caller's choosing behaves the same way
		custom = []int{1, 2, 3, 5, 8, 33}[(idx/4)%6]
		coll = age.Collator[any]().MakeWithMaximum(custom)
		cs["maximum"] = custom
		if coll.GetMaximum() != custom {
			c.Violation("cyclic/maximum-not-kept", fmt.Sprintf("MakeWithMaximum(%d).GetMaximum()=%d", custom, coll.GetMaximum()), cs)
			return
		}
	}
	battery := acyclicBattery
	if custom > 0 {
		battery = func(coll age.CollatorLike[any]) string { return shallowBattery(coll, custom) }
	}
	for _, step := range []struct {
		what string
		f    func()
	}{
		{"CompareValues(v,v)", func() { coll.CompareValues(v, v) }},
		{"RankValues(v,v)", func() { coll.RankValues(v, v) }},
		{"CompareValues(v,w)", func() { coll.CompareValues(v, w) }},
		{"RankValues(w,v)", func() { coll.RankValues(w, v) }},
	} {
		if d := expectDepthPanic(step.what, step.f); d != "" {
			c.Violation(sig+"/no-depth-panic", d, cs)
			return
		}
		if d := battery(coll); d != "" {
			c.Violation(sig+"/collator-broken-afterwards", "after "+step.what+" ended with the depth-limit panic: "+d, cs)
			return
		}
	}
	if d := acyclicBattery(age.Collator[any]().Make()); d != "" {
		c.Violation(sig+"/fresh-collator-broken", d, cs)
		return
	}
	if coll.GetDepth() != 0 {
		c.Violation(sig+"/depth-not-restored", fmt.Sprintf("GetDepth()=%d after the depth-limit panic", coll.GetDepth()), cs)
		return
	}
	// the harness-defined self-containing sequence gives a logical bound
	if idx%24 == 0 {
		s := &CountingSeq{}
		if sib > 0 {
			s.Extra = []any{int64(1)}
		}
		if d := expectDepthPanic("CompareValues(seq,seq)", func() { coll.CompareValues(any(s), any(s)) }); d != "" {
			c.Violation("cyclic/counting-sequence/no-depth-panic", d, cs)
			return
		}
		if s.Calls > 10*2*coll.GetMaximum() {
			c.Violation("cyclic/counting-sequence/too-many-steps", fmt.Sprintf("AsArray was called %d times before the depth limit (%d) stopped the traversal", s.Calls, coll.GetMaximum()), cs)
			return
		}
		c.Cover("counting-sequence")
	}
	c.Cover(fmt.Sprintf("ring-length-%d", len(kinds)))
	c.Distinct(core.Mix(core.HashStr(strings.Join(kinds, ">")), uint64(sib)))
	if c.WantSample("cyclic") {
		c.Sample("cyclic", cs)
	}
}

func ReproDepthStuck() (bool, string) {
	l := col.List[any](notation).Make()
	l.AppendValue(l)
	coll := age.Collator[any]().Make()
	func() {
		defer func() { recover() }()
		coll.CompareValues(l, l)
	}()
	if d := acyclicBattery(coll); d != "" {
		return true, "after comparing a self-containing list (depth-limit panic) " + d
	}
	return false, "the collator works after the depth-limit panic"
}

// ReproSelfAssociation: comparing and ranking an association whose value is
// the association itself (the reproducer runs in a child process: the
// original defect was a fatal stack overflow).
func ReproSelfAssociation() (bool, string) {
	debug.SetMaxStack(64 << 20)
	a := col.Association[string, any](notation).Make("k", nil)
	a.SetValue(a)
	b := col.Association[string, any](notation).Make("k", nil)
	b.SetValue(b)
	coll := age.Collator[any]().Make()
	for _, step := range []struct {
		what string
		f    func()
	}{
		{"CompareValues(a,a)", func() { coll.CompareValues(a, a) }},
		{"CompareValues(a,b)", func() { coll.CompareValues(a, b) }},
		{"RankValues(a,b)", func() { coll.RankValues(a, b) }},
	} {
		if d := expectDepthPanic(step.what, step.f); d != "" {
			return true, "self-containing association: " + d
		}
	}
	if d := acyclicBattery(coll); d != "" {
		return true, "after the depth-limit panic on a self-containing association: " + d
	}
	return false, "a self-containing association ends with the depth-limit panic and the collator works afterwards"
}

// ---- deep but legal: nests as deep as the limit allows ----

// DeepKinds are the collection kinds a nest is made of.
var DeepKinds = []string{"list", "array", "stack", "queue", "catalog", "map", "slice", "gomap"}

// buildNest wraps the leaf in `levels` collections whose kinds cycle through kinds.
func buildNest(kinds []string, levels int, leaf any) any {
	v := leaf
	for l := levels - 1; l >= 0; l-- {
		h := newHolder(kinds[l%len(kinds)], 0)
		h.put(v)
		v = h.val
	}
	return v
}

// DeepCases: every kind alone and every ordered pair of kinds, at every depth
// 1..16 under the default limit and at the limit itself for custom limits.
func DeepCases() int { n := len(DeepKinds); return n + n*n }

// RunDeep: a value nested exactly as deep as the collator's limit (GetMaximum
// levels of collections) is within the documented limit: it compares equal to
// an independently built twin, unequal to a twin with another leaf, and ranks
// consistently - no depth-limit panic.  One level more may panic (with the
// documented message) or work.
func RunDeep(c *core.Ctx, idx int) {
	n := len(DeepKinds)
	var kinds []string
	if idx < n {
		kinds = []string{DeepKinds[idx]}
	} else {
		k := idx - n
		kinds = []string{DeepKinds[k/n], DeepKinds[k%n]}
	}
	for _, maximum := range []int{0, 1, 2, 3, 5, 9} { // 0 = the default collator
		coll := age.Collator[any]().Make()
		if maximum > 0 {
			coll = age.Collator[any]().MakeWithMaximum(maximum)
		}
		limit := coll.GetMaximum()
		for levels := 1; levels <= limit; levels++ {
			if maximum == 0 && levels > 3 && levels < limit-2 && levels%4 != 0 {
				continue // the default limit: shallow, every fourth, and the last three depths
			}
			cs := map[string]any{"kinds": kinds, "levels": levels, "maximum": limit}
			a, b, x := buildNest(kinds, levels, "p"), buildNest(kinds, levels, "p"), buildNest(kinds, levels, "q")
			var d string
			func() {
				defer func() {
					if e := recover(); e != nil {
						d = fmt.Sprintf("a value nested %d deep (limit %d) is rejected: %s", levels, limit, trunc(fmt.Sprint(e)))
					}
				}()
				switch {
				case !coll.CompareValues(a, b):
					d = "two equal nests compare unequal"
				case coll.CompareValues(a, x):
					d = "two nests with different leaves compare equal"
				case coll.RankValues(a, b) != age.EqualRank:
					d = "two equal nests do not rank Equal"
				case coll.RankValues(a, x) != age.LesserRank || coll.RankValues(x, a) != age.GreaterRank:
					d = "nests with leaves p and q are misordered"
				}
			}()
			if d != "" {
				c.Violation("deep-legal/"+strings.Join(kinds, ">"), d, cs)
				return
			}
			c.Cover(fmt.Sprintf("deep-legal.depth-%d-of-%d", levels, limit))
		}
		// beyond the limit: the documented panic or a correct answer, nothing else
		a, b := buildNest(kinds, limit+2, "p"), buildNest(kinds, limit+2, "p")
		var bad string
		func() {
			defer func() {
				if e := recover(); e != nil {
					msg := fmt.Sprint(e)
					if _, isRT := e.(runtime.Error); isRT || !strings.Contains(strings.ToLower(msg), "depth") {
						bad = "a value nested deeper than the limit ends with something other than the depth-limit panic: " + trunc(msg)
					}
				}
			}()
			if !coll.CompareValues(a, b) {
				bad = "a value nested deeper than the limit compares unequal to its twin"
			}
		}()
		if bad != "" {
			c.Violation("deep-beyond/"+strings.Join(kinds, ">"), bad, map[string]any{"kinds": kinds, "levels": limit + 2, "maximum": limit})
			return
		}
	}
	c.Distinct(core.HashStr("deep" + strings.Join(kinds, ">")))
	if c.WantSample("deep") {
		c.Sample("deep", map[string]any{"kinds": kinds})
	}
}

// ReproDeepCatalog: catalogs nested exactly as deep as the limit.
func ReproDeepCatalog() (bool, string) {
	for _, maximum := range []int{0, 1, 3} {
		coll := age.Collator[any]().Make()
		if maximum > 0 {
			coll = age.Collator[any]().MakeWithMaximum(maximum)
		}
		limit := coll.GetMaximum()
		a, b := buildNest([]string{"catalog"}, limit, "p"), buildNest([]string{"catalog"}, limit, "p")
		var d string
		func() {
			defer func() {
				if e := recover(); e != nil {
					d = fmt.Sprintf("catalogs nested %d deep under a limit of %d are rejected: %s", limit, limit, trunc(fmt.Sprint(e)))
				}
			}()
			if !coll.CompareValues(a, b) || coll.RankValues(a, b) != age.EqualRank {
				d = fmt.Sprintf("catalogs nested %d deep are not equal to their twin", limit)
			}
		}()
		if d != "" {
			return true, d
		}
	}
	return false, "catalogs nested as deep as the limit compare equal to their twins"
}
