package rel

import (
	"fmt"
	"strings"

	age "github.com/craterdog/go-collection-framework/v4/agent"
	col "github.com/craterdog/go-collection-framework/v4/collection"

	"verif/harness/internal/core"
)

// Node is a recipe for a value: building it twice gives two independent values
// made of equal parts.
type Node struct {
	Kind string // leaf, slice, gomap, array, list, set, stack, queue, catalog, map, assoc
	Leaf any
	Kids []*Node
	Keys []any
}

var leafPool = []any{nil, false, true, int64(-2), int64(0), int64(1), int64(7), uint64(0), uint64(3), 0.5, -1.25, 2.0, complex(1, 1), complex(0, -2), 'a', 'z', rune(0x1F600), "", "a", "ab", "b", "\xff"}

var seqKinds = []string{"slice", "array", "list", "set", "stack", "queue"}
var mapKinds = []string{"gomap", "catalog", "map"}

func genLeaf(r *core.Rng) *Node { return &Node{Kind: "leaf", Leaf: leafPool[r.Intn(len(leafPool))]} }

func genKeys(r *core.Rng, n int) []any {
	pool := []any{"a", "b", "c", "d", "", int64(1), int64(2), true, 'k'}
	perm := r.Perm(len(pool))
	ks := make([]any, n)
	for i := range ks {
		ks[i] = pool[perm[i]]
	}
	return ks
}

// Gen draws a recipe of at most the given depth.
func Gen(r *core.Rng, depth int) *Node {
	if depth <= 0 || r.Chance(1, 3) {
		return genLeaf(r)
	}
	n := r.Intn(4)
	switch r.Intn(10) {
	case 0, 1, 2, 3, 4, 5:
		nd := &Node{Kind: seqKinds[r.Intn(len(seqKinds))]}
		for i := 0; i < n; i++ {
			nd.Kids = append(nd.Kids, Gen(r, depth-1))
		}
		return nd
	case 6, 7, 8:
		nd := &Node{Kind: mapKinds[r.Intn(len(mapKinds))], Keys: genKeys(r, n)}
		for i := 0; i < n; i++ {
			nd.Kids = append(nd.Kids, Gen(r, depth-1))
		}
		return nd
	default:
		return &Node{Kind: "assoc", Keys: genKeys(r, 1), Kids: []*Node{Gen(r, depth-1)}}
	}
}

// Build constructs a fresh value.  order permutes the insertion order of the
// unordered kinds (Go maps, Maps) and of Sets - content is the same.
func (n *Node) Build(order *core.Rng) any {
	if n.Kind == "leaf" {
		return n.Leaf
	}
	elems := make([]any, len(n.Kids))
	for i, k := range n.Kids {
		elems[i] = k.Build(order)
	}
	idx := make([]int, len(elems))
	for i := range idx {
		idx[i] = i
	}
	if order != nil && (n.Kind == "gomap" || n.Kind == "map" || n.Kind == "set") {
		idx = order.Perm(len(elems))
	}
	switch n.Kind {
	case "slice":
		return elems
	case "array":
		return col.Array[any](notation).MakeFromArray(elems)
	case "list":
		return col.List[any](notation).MakeFromArray(elems)
	case "stack":
		return col.Stack[any](notation).MakeFromArray(elems)
	case "queue":
		return col.Queue[any](notation).MakeFromArray(elems)
	case "set":
		s := col.Set[any](notation).Make()
		for _, i := range idx {
			s.AddValue(elems[i])
		}
		return s
	case "gomap":
		m := map[any]any{}
		for _, i := range idx {
			m[n.Keys[i]] = elems[i]
		}
		return m
	case "map":
		m := col.Map[any, any](notation).Make()
		for _, i := range idx {
			m.SetValue(n.Keys[i], elems[i])
		}
		return m
	case "catalog":
		c := col.Catalog[any, any](notation).Make()
		for i := range elems {
			c.SetValue(n.Keys[i], elems[i])
		}
		return c
	case "assoc":
		return col.Association[any, any](notation).Make(n.Keys[0], elems[0])
	}
	panic("unknown kind " + n.Kind)
}

func (n *Node) clone() *Node {
	c := &Node{Kind: n.Kind, Leaf: n.Leaf, Keys: append([]any{}, n.Keys...)}
	for _, k := range n.Kids {
		c.Kids = append(c.Kids, k.clone())
	}
	return c
}

func (n *Node) String() string {
	if n.Kind == "leaf" {
		return Show(n.Leaf)
	}
	var parts []string
	for i, k := range n.Kids {
		if len(n.Keys) > 0 {
			parts = append(parts, Show(n.Keys[i])+":"+k.String())
		} else {
			parts = append(parts, k.String())
		}
	}
	return n.Kind + "[" + strings.Join(parts, " ") + "]"
}

// freshKey returns a key that is not among the given ones.
func freshKey(existing []any, base string) any {
	k := base
	for n := 0; ; n++ {
		dup := false
		for _, e := range existing {
			if e == any(k) {
				dup = true
			}
		}
		if !dup {
			return k
		}
		k = fmt.Sprintf("%s-%d", base, n)
	}
}

func leafDiffers(a, b any) bool {
	if a == b {
		return false
	}
	// +0 and -0 are == ; other distinct floats differ.  different dynamic types differ.
	return true
}

// Mutation is a single-point change of a recipe.
type Mutation struct {
	What string
	Node *Node
}

// Mutations enumerates single-point mutations of the recipe (bounded).
func (n *Node) Mutations(r *core.Rng) []Mutation {
	var out []Mutation
	// paths to every node
	type path []int
	var paths []path
	var walk func(x *Node, p path)
	walk = func(x *Node, p path) {
		paths = append(paths, append(path{}, p...))
		for i, k := range x.Kids {
			walk(k, append(p, i))
		}
	}
	walk(n, nil)
	at := func(root *Node, p path) *Node {
		x := root
		for _, i := range p {
			x = x.Kids[i]
		}
		return x
	}
	for _, p := range paths {
		x := at(n, p)
		if x.Kind == "leaf" {
			for tries := 0; tries < 10; tries++ {
				nl := leafPool[r.Intn(len(leafPool))]
				if leafDiffers(x.Leaf, nl) {
					c := n.clone()
					at(c, p).Leaf = nl
					out = append(out, Mutation{fmt.Sprintf("leaf %s -> %s at %v", Show(x.Leaf), Show(nl), p), c})
					break
				}
			}
			continue
		}
		if x.Kind == "assoc" {
			c := n.clone()
			at(c, p).Keys[0] = freshKey(x.Keys, "renamed-key")
			out = append(out, Mutation{fmt.Sprintf("key renamed at %v", p), c})
			continue
		}
		isMap := len(x.Keys) > 0 || x.Kind == "gomap" || x.Kind == "catalog" || x.Kind == "map"
		// add an element (a fresh value that cannot already be present)
		if len(x.Kids) < 12 {
			c := n.clone()
			y := at(c, p)
			y.Kids = append(y.Kids, &Node{Kind: "leaf", Leaf: "fresh-element"})
			if isMap {
				y.Keys = append(y.Keys, freshKey(x.Keys, "fresh-key"))
			}
			out = append(out, Mutation{fmt.Sprintf("element added at %v", p), c})
		}
		if len(x.Kids) > 0 {
			i := r.Intn(len(x.Kids))
			c := n.clone()
			y := at(c, p)
			y.Kids = append(y.Kids[:i:i], y.Kids[i+1:]...)
			if isMap {
				y.Keys = append(y.Keys[:i:i], y.Keys[i+1:]...)
			}
			// removing one of two equal members of a set changes nothing: skip that case
			skip := false
			if x.Kind == "set" {
				for j, k := range x.Kids {
					if j != i && k.String() == x.Kids[i].String() {
						skip = true
					}
				}
			}
			if !skip {
				out = append(out, Mutation{fmt.Sprintf("element %d removed at %v", i, p), c})
			}
			if isMap {
				c2 := n.clone()
				at(c2, p).Keys[i] = freshKey(x.Keys, "renamed-key")
				out = append(out, Mutation{fmt.Sprintf("key %s renamed at %v", Show(x.Keys[i]), p), c2})
			}
		}
		ordered := x.Kind == "slice" || x.Kind == "array" || x.Kind == "list" || x.Kind == "stack" || x.Kind == "queue" || x.Kind == "catalog"
		if ordered && len(x.Kids) >= 2 {
			i := r.Intn(len(x.Kids) - 1)
			differ := x.Kids[i].String() != x.Kids[i+1].String()
			if x.Kind == "catalog" {
				differ = true // keys are distinct
			}
			if differ {
				c := n.clone()
				y := at(c, p)
				y.Kids[i], y.Kids[i+1] = y.Kids[i+1], y.Kids[i]
				if isMap {
					y.Keys[i], y.Keys[i+1] = y.Keys[i+1], y.Keys[i]
				}
				out = append(out, Mutation{fmt.Sprintf("elements %d,%d swapped at %v", i, i+1, p), c})
			}
		}
	}
	if len(out) > 24 {
		perm := r.Perm(len(out))
		sel := make([]Mutation, 24)
		for i := range sel {
			sel[i] = out[perm[i]]
		}
		out = sel
	}
	return out
}

// hasEqualSetMembers: a set built from the recipe holds fewer members than
// listed (equal members collapse) - leaf changes inside may then be invisible.
func (n *Node) containsSet() bool {
	if n.Kind == "set" {
		return true
	}
	for _, k := range n.Kids {
		if k.containsSet() {
			return true
		}
	}
	return false
}

type pairResult struct {
	r    age.Rank
	c    bool
	rerr string
	cerr string
}

func evalAny(coll age.CollatorLike[any], a, b any) (out pairResult) {
	func() {
		defer func() {
			if e := recover(); e != nil {
				out.rerr = trunc(fmt.Sprint(e))
			}
		}()
		out.r = coll.RankValues(a, b)
	}()
	func() {
		defer func() {
			if e := recover(); e != nil {
				out.cerr = trunc(fmt.Sprint(e))
			}
		}()
		out.c = coll.CompareValues(a, b)
	}()
	return
}

// RunRandomTriples (C07): three related recipes; laws on all ordered pairs and
// the triple; invariance under rebuilding with other insertion orders.
func RunRandomTriples(c *core.Ctx) {
	r := c.Rng
	depth := r.Range(1, 3)
	na := Gen(r, depth)
	nb := Gen(r, depth)
	if ms := na.Mutations(r); len(ms) > 0 && r.Chance(2, 3) {
		nb = ms[r.Intn(len(ms))].Node
	}
	nc := Gen(r, depth)
	if ms := nb.Mutations(r); len(ms) > 0 && r.Chance(2, 3) {
		nc = ms[r.Intn(len(ms))].Node
	}
	if r.Chance(1, 10) {
		// wide, shallow values: many elements, little depth
		na = GenWide(r)
		nb, nc = na.clone(), na.clone()
		if ms := na.Mutations(r); len(ms) > 1 {
			nb, nc = ms[0].Node, ms[len(ms)-1].Node
		}
	}
	nodes := []*Node{na, nb, nc}
	vals := make([]any, 3)
	copies := make([]any, 3)
	for i, n := range nodes {
		vals[i] = n.Build(nil)
		copies[i] = n.Build(r)
	}
	coll := age.Collator[any]().Make()
	cs := map[string]any{"a": na.String(), "b": nb.String(), "c": nc.String()}
	fail := func(sig, format string, a ...any) {
		c.Violation("rank/"+sig+"/generated", fmt.Sprintf(format, a...), cs)
	}
	var m [3][3]pairResult
	for i := 0; i < 3; i++ {
		for j := 0; j < 3; j++ {
			m[i][j] = evalAny(coll, vals[i], vals[j])
			if m[i][j].rerr != "" {
				fail("panicked", "RankValues(%c,%c) panicked: %s", 'a'+i, 'a'+j, m[i][j].rerr)
				return
			}
			// independent rebuilt operands, other insertion orders, fresh collator
			x := evalAny(age.Collator[any]().Make(), copies[i], copies[j])
			if x.r != m[i][j].r || x.rerr != "" {
				fail("depends-on-operand-identity", "RankValues(%c,%c)=%s but %s%s on independently rebuilt equal operands", 'a'+i, 'a'+j, rname(m[i][j].r), rname(x.r), x.rerr)
				return
			}
			y := evalAny(coll, vals[i], copies[j])
			if y.r != m[i][j].r {
				fail("unstable", "RankValues(%c,%c)=%s first and %s later on the same collator", 'a'+i, 'a'+j, rname(m[i][j].r), rname(y.r))
				return
			}
			if k, ok := NatRank(vals[i], vals[j]); ok && natName(k) != rname(m[i][j].r) {
				fail("natural-order", "RankValues(%c,%c)=%s, the natural order says %s", 'a'+i, 'a'+j, rname(m[i][j].r), natName(k))
				return
			}
		}
	}
	for i := 0; i < 3; i++ {
		if m[i][i].r != age.EqualRank {
			fail("reflexivity", "RankValues(%c,%c)=%s", 'a'+i, 'a'+i, rname(m[i][i].r))
			return
		}
		for j := 0; j < 3; j++ {
			if m[j][i].r != mirror(m[i][j].r) {
				fail("antisymmetry", "RankValues(%c,%c)=%s but RankValues(%c,%c)=%s", 'a'+i, 'a'+j, rname(m[i][j].r), 'a'+j, 'a'+i, rname(m[j][i].r))
				return
			}
			for k := 0; k < 3; k++ {
				if m[i][j].r != age.GreaterRank && m[j][k].r != age.GreaterRank && m[i][k].r == age.GreaterRank {
					fail("transitivity", "%c<=%c and %c<=%c but RankValues(%c,%c)=Greater", 'a'+i, 'a'+j, 'a'+j, 'a'+k, 'a'+i, 'a'+k)
					return
				}
			}
		}
	}
	if coll.GetDepth() != 0 {
		fail("depth-not-restored", "GetDepth()=%d after the calls", coll.GetDepth())
		return
	}
	c.Cover("triples")
	c.Distinct(core.Mix(core.HashStr(na.String()), core.HashStr(nb.String()), core.HashStr(nc.String())))
	if c.WantSample("generated-triple") {
		c.Sample("generated-triple", cs)
	}
}

// RunCopiesAndMutations (C08): rebuilt copy equal, every single-point mutation unequal.
// GenWide draws a wide, shallow recipe: many siblings (up to 40), each a small
// container - the traversal depth stays tiny however many elements are visited.
func GenWide(r *core.Rng) *Node {
	n := r.Range(10, 40)
	var nd *Node
	if r.Chance(1, 3) {
		nd = &Node{Kind: mapKinds[r.Intn(len(mapKinds))]}
		for i := 0; i < n; i++ {
			nd.Keys = append(nd.Keys, fmt.Sprintf("key%02d", i))
		}
	} else {
		nd = &Node{Kind: []string{"slice", "array", "list"}[r.Intn(3)]}
	}
	for i := 0; i < n; i++ {
		nd.Kids = append(nd.Kids, Gen(r, 1))
	}
	return nd
}

func RunCopiesAndMutations(c *core.Ctx) {
	r := c.Rng
	n := Gen(r, r.Range(1, 3))
	if r.Chance(1, 8) {
		n = GenWide(r)
		c.Cover("wide-values")
	}
	v := n.Build(nil)
	cp := n.Build(r)
	coll := age.Collator[any]().Make()
	cs := map[string]any{"value": n.String()}
	fail := func(sig, format string, a ...any) {
		c.Violation("compare/"+sig+"/generated", fmt.Sprintf(format, a...), cs)
	}
	x := evalAny(coll, v, cp)
	if x.cerr != "" || x.rerr != "" {
		fail("panicked", "comparing a value with its rebuilt copy panicked: %s %s", x.cerr, x.rerr)
		return
	}
	if !x.c || x.r != age.EqualRank {
		fail("copy-not-equal", "an independently rebuilt copy: CompareValues=%v RankValues=%s", x.c, rname(x.r))
		return
	}
	if y := evalAny(coll, cp, v); !y.c || y.r != age.EqualRank {
		fail("copy-not-equal", "an independently rebuilt copy (swapped operands): CompareValues=%v RankValues=%s", y.c, rname(y.r))
		return
	}
	muts := n.Mutations(r)
	for _, m := range muts {
		mv := m.Node.Build(r)
		cs["mutation"] = m.What
		cs["mutant"] = m.Node.String()
		// the harness's own structural check first: a mutation that happens to be
		// invisible (e.g. inside a set with equal members) is skipped, not asserted
		if eq, ok := StructEqual(v, mv); ok && eq {
			c.Cover("mutation-invisible-skipped")
			continue
		}
		for _, pr := range [][2]any{{v, mv}, {mv, v}} {
			y := evalAny(coll, pr[0], pr[1])
			if y.cerr != "" || y.rerr != "" {
				fail("panicked", "comparing with a mutant (%s) panicked: %s %s", m.What, y.cerr, y.rerr)
				return
			}
			if y.c {
				fail("mutation-equal", "after a single-point mutation (%s) CompareValues still says equal", m.What)
				return
			}
			if y.r == age.EqualRank {
				fail("disagrees-with-rank", "after a single-point mutation (%s) CompareValues=false but RankValues=Equal", m.What)
				return
			}
		}
		c.Cover("mutations")
	}
	delete(cs, "mutation")
	delete(cs, "mutant")
	if coll.GetDepth() != 0 {
		fail("depth-not-restored", "GetDepth()=%d after the calls", coll.GetDepth())
		return
	}
	c.Distinct(core.HashStr(n.String()))
	if c.WantSample("recipe") {
		c.Sample("recipe", map[string]any{"value": n.String(), "mutations_checked": len(muts)})
	}
}
