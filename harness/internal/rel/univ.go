package rel

import (
	"math"

	cdc "github.com/craterdog/go-collection-framework/v4/cdcn"
	col "github.com/craterdog/go-collection-framework/v4/collection"
)

var notation = cdc.Notation().Make()

func inf(s int) float64 { return math.Inf(s) }

var nan = math.NaN()
var negZero = math.Copysign(0, -1)

var (
	f64Corners = []float64{negZero, 0, 1, -1, 0.5, -0.5, math.SmallestNonzeroFloat64, -math.SmallestNonzeroFloat64,
		math.MaxFloat64, -math.MaxFloat64, inf(1), inf(-1), 1e6, 1e-7, 3.0000000000000004, 3, nan}
	f32Corners = []float32{float32(negZero), 0, 1, -1, 0.5, math.SmallestNonzeroFloat32, math.MaxFloat32, -math.MaxFloat32,
		float32(inf(1)), float32(inf(-1)), 16777216, 16777217, float32(nan)}
	c128Corners = []complex128{0, complex(negZero, 0), complex(0, negZero), complex(negZero, negZero), 1, -1, 1i, -1i, 1 + 1i, 1 - 1i, -1 + 1i, -1 - 1i,
		complex(3, 4), complex(5, 0), complex(4, 3), complex(0, 5), complex(1e308, 1e308), complex(1.5e308, 1.5e308), complex(1.6e308, 1.6e308), complex(-1.5e308, 1.5e308),
		complex(-1, 0), complex(-1, negZero), complex(-1, 1e-10), complex(-1, -1e-10), complex(1, negZero), complex(-5, negZero), complex(-5, 0), complex(-3, 4), complex(-3, -4),
		complex(inf(1), 0), complex(0, inf(1)), complex(nan, 0), complex(0, nan), complex(nan, nan)}
	c64Corners = []complex64{0, 1, -1, 1i, -1i, 1 + 1i, 1 - 1i, complex(3, 4), complex(5, 0), complex(float32(negZero), 0),
		complex(3e38, 3e38), complex(2.9e38, 2.9e38), complex(-1, 0), complex(-1, float32(negZero)), complex(-1, 1e-5), complex(float32(nan), 0)}
	strCorners = []string{"", "a", "b", "ab", "abc", "aB", "A", "a\x00", "\x00", "\xff", "\xfe\xff", "é", "é", "z", "zz", "\U0001F600", "\n", " "}
)

func seqOf[T any](lists ...[]T) [][]T { return lists }

// TypedUniverses builds the corner universes of the static types.
func TypedUniverses() []*Univ {
	var us []*Univ
	us = append(us,
		MakeUniv("bool", []bool{false, true}),
		MakeUniv("int8", []int8{math.MinInt8, -1, 0, 1, math.MaxInt8, 2, -2}),
		MakeUniv("int16", []int16{math.MinInt16, -1, 0, 1, math.MaxInt16, 256, -256}),
		MakeUniv("rune", []rune{math.MinInt32, -1, 0, 1, 'a', 'b', 'é', 0xD7FF, 0xFFFD, 0x10FFFF, math.MaxInt32}),
		MakeUniv("int64", []int64{math.MinInt64, math.MinInt64 + 1, -1 << 32, -1, 0, 1, 1 << 32, math.MaxInt64 - 1, math.MaxInt64}),
		MakeUniv("int", []int{math.MinInt, -1, 0, 1, 2, math.MaxInt}),
		MakeUniv("uint8", []uint8{0, 1, 2, 127, 128, 255}),
		MakeUniv("uint16", []uint16{0, 1, 255, 256, math.MaxUint16}),
		MakeUniv("uint32", []uint32{0, 1, 1 << 31, math.MaxUint32}),
		MakeUniv("uint64", []uint64{0, 1, 1 << 63, 1<<63 - 1, math.MaxUint64 - 1, math.MaxUint64}),
		MakeUniv("uint", []uint{0, 1, 2, math.MaxUint}),
		MakeUniv("float64", f64Corners),
		MakeUniv("float32", f32Corners),
		MakeUniv("complex128", c128Corners),
		MakeUniv("complex64", c64Corners),
		MakeUniv("string", strCorners),
	)
	// Go slices and maps
	us = append(us,
		MakeUniv("[]int", seqOf([]int(nil), []int{}, []int{0}, []int{1}, []int{0, 0}, []int{0, 1}, []int{1, 0}, []int{0, 1, 2}, []int{0, 2}, []int{-1}, []int{math.MaxInt}, []int{math.MinInt, 0})),
		MakeUniv("[]string", seqOf([]string(nil), []string{}, []string{""}, []string{"", ""}, []string{"a"}, []string{"a", "b"}, []string{"ab"}, []string{"b"}, []string{"\xff"})),
		MakeUniv("[]float64", seqOf([]float64{}, []float64{0}, []float64{negZero}, []float64{0, 1}, []float64{1}, []float64{inf(-1)}, []float64{inf(1), 0}, []float64{nan}, []float64{1, nan}, []float64{0.5, 0.25})),
		MakeUniv("[]bool", seqOf([]bool{}, []bool{false}, []bool{true}, []bool{false, true}, []bool{true, false}, []bool{false, false})),
		MakeUniv("[][]int", [][][]int{nil, {}, {{}}, {nil}, {{0}}, {{0}, {}}, {{}, {0}}, {{0, 1}}, {{0}, {1}}, {{1}}, {{0}, {0}}}),
		MakeUniv("[]any", seqOf([]any(nil), []any{}, []any{nil}, []any{nil, nil}, []any{0}, []any{"a"}, []any{0, "a"}, []any{"a", 0}, []any{true}, []any{[]any{}}, []any{[]any{0}}, []any{0.5}, []any{0, 1})),
		MakeUniv("map[string]int", []map[string]int{nil, {}, {"a": 1}, {"a": 2}, {"b": 1}, {"a": 1, "b": 2}, {"b": 2, "a": 1}, {"a": 1, "b": 3}, {"a": 1, "c": 2}, {"": 0}, {"a": 0}}),
		MakeUniv("map[int]string", []map[int]string{nil, {}, {1: "a"}, {1: "b"}, {2: "a"}, {1: "a", 2: "b"}, {2: "b", 1: "a"}, {-1: ""}, {1: "", 2: ""}}),
		MakeUniv("map[string][]int", []map[string][]int{{}, {"a": nil}, {"a": {}}, {"a": {1}}, {"a": {1, 2}}, {"a": {1}, "b": {2}}, {"b": {2}, "a": {1}}, {"a": {2}}}),
		MakeUniv("map[string]any", []map[string]any{{}, {"a": nil}, {"a": 1}, {"a": "1"}, {"a": []any{1}}, {"a": map[string]any{}}, {"a": map[string]any{"b": 1}}, {"a": 1, "b": nil}}),
	)
	// the seven kinds with int / string elements (typed collators)
	L := col.List[int](notation)
	us = append(us, MakeUniv("ListLike[int]", []col.ListLike[int]{nil, L.Make(), L.MakeFromArray([]int{0}), L.MakeFromArray([]int{0}), L.MakeFromArray([]int{1}),
		L.MakeFromArray([]int{0, 1}), L.MakeFromArray([]int{1, 0}), L.MakeFromArray([]int{0, 1, 2}), L.MakeFromArray([]int{0, 2}), L.MakeFromArray([]int{-5})}))
	A := col.Array[int](notation)
	us = append(us, MakeUniv("ArrayLike[int]", []col.ArrayLike[int]{A.Make(0), A.Make(1), A.Make(2), A.MakeFromArray([]int{0}), A.MakeFromArray([]int{1}), A.MakeFromArray([]int{0, 1}), A.MakeFromArray([]int{1, 0}), A.MakeFromArray([]int{0, 0, 0})}))
	S := col.Set[int](notation)
	us = append(us, MakeUniv("SetLike[int]", []col.SetLike[int]{nil, S.Make(), S.MakeFromArray([]int{0}), S.MakeFromArray([]int{1}), S.MakeFromArray([]int{1, 0}), S.MakeFromArray([]int{0, 1}),
		S.MakeFromArray([]int{0, 1, 2}), S.MakeFromArray([]int{2, 0}), S.MakeFromArray([]int{2, 2, 2})}))
	K := col.Stack[string](notation)
	us = append(us, MakeUniv("StackLike[string]", []col.StackLike[string]{nil, K.Make(), K.MakeFromArray([]string{"a"}), K.MakeFromArray([]string{"a", "b"}), K.MakeFromArray([]string{"b", "a"}),
		K.MakeFromArray([]string{""}), K.MakeFromArray([]string{"a", "b", "c"}), K.MakeWithCapacity(2), K.MakeFromArray([]string{"a"})}))
	Q := col.Queue[int](notation)
	us = append(us, MakeUniv("QueueLike[int]", []col.QueueLike[int]{nil, Q.Make(), Q.MakeFromArray([]int{0}), Q.MakeFromArray([]int{0, 1}), Q.MakeFromArray([]int{1, 0}), Q.MakeWithCapacity(3), Q.MakeFromArray([]int{1}), Q.MakeFromArray([]int{0, 1})}))
	C := col.Catalog[string, int](notation)
	mkC := func(kv ...any) col.CatalogLike[string, int] {
		c := C.Make()
		for i := 0; i+1 < len(kv); i += 2 {
			c.SetValue(kv[i].(string), kv[i+1].(int))
		}
		return c
	}
	us = append(us, MakeUniv("CatalogLike[string,int]", []col.CatalogLike[string, int]{nil, mkC(), mkC("a", 1), mkC("a", 1), mkC("a", 2), mkC("b", 1), mkC("a", 1, "b", 2), mkC("b", 2, "a", 1), mkC("a", 1, "b", 3), mkC("", 0)}))
	M := col.Map[string, int](notation)
	us = append(us, MakeUniv("MapLike[string,int]", []col.MapLike[string, int]{M.Make(), M.MakeFromMap(map[string]int{"a": 1}), M.MakeFromMap(map[string]int{"a": 2}), M.MakeFromMap(map[string]int{"b": 1}),
		M.MakeFromMap(map[string]int{"a": 1, "b": 2}), M.MakeFromMap(map[string]int{"b": 2, "a": 1}), M.MakeFromMap(map[string]int{"a": 1, "b": 3}), M.MakeFromMap(map[string]int{"": 0})}))
	As := col.Association[string, int](notation)
	us = append(us, MakeUniv("AssociationLike[string,int]", []col.AssociationLike[string, int]{nil, As.Make("a", 1), As.Make("a", 1), As.Make("a", 2), As.Make("b", 1), As.Make("b", 0), As.Make("", 0), As.Make("a", -1)}))
	// nested: sets of lists, lists of sets
	LL := col.List[col.SetLike[int]](notation)
	us = append(us, MakeUniv("ListLike[SetLike[int]]", []col.ListLike[col.SetLike[int]]{LL.Make(), LL.MakeFromArray([]col.SetLike[int]{S.Make()}), LL.MakeFromArray([]col.SetLike[int]{S.MakeFromArray([]int{1})}),
		LL.MakeFromArray([]col.SetLike[int]{S.MakeFromArray([]int{1}), S.Make()}), LL.MakeFromArray([]col.SetLike[int]{S.Make(), S.MakeFromArray([]int{1})}), LL.MakeFromArray([]col.SetLike[int]{nil}),
		LL.MakeFromArray([]col.SetLike[int]{S.MakeFromArray([]int{0, 1})})}))
	// Maps reached through a static interface type (not through `any`): an element of
	// type MapLike is still a Map, compared and ranked regardless of insertion order
	mkM := func(kv ...any) col.MapLike[string, int] {
		m := M.Make()
		for i := 0; i+1 < len(kv); i += 2 {
			m.SetValue(kv[i].(string), kv[i+1].(int))
		}
		return m
	}
	abc := func() col.MapLike[string, int] { return mkM("a", 1, "b", 2, "c", 3, "d", 4, "e", 5) }
	cba := func() col.MapLike[string, int] { return mkM("e", 5, "d", 4, "c", 3, "b", 2, "a", 1) }
	abx := func() col.MapLike[string, int] { return mkM("a", 1, "b", 2, "c", 3, "d", 4, "e", 6) }
	LM := col.List[col.MapLike[string, int]](notation)
	us = append(us, MakeUniv("ListLike[MapLike[string,int]]", []col.ListLike[col.MapLike[string, int]]{LM.Make(),
		LM.MakeFromArray([]col.MapLike[string, int]{mkM()}), LM.MakeFromArray([]col.MapLike[string, int]{abc()}), LM.MakeFromArray([]col.MapLike[string, int]{cba()}),
		LM.MakeFromArray([]col.MapLike[string, int]{abx()}), LM.MakeFromArray([]col.MapLike[string, int]{abc(), cba()}), LM.MakeFromArray([]col.MapLike[string, int]{cba(), abc()}),
		LM.MakeFromArray([]col.MapLike[string, int]{mkM("a", 1)}), LM.MakeFromArray([]col.MapLike[string, int]{abc(), abx()})}))
	us = append(us, MakeUniv("[]MapLike[string,int]", [][]col.MapLike[string, int]{{}, {mkM()}, {abc()}, {cba()}, {abx()}, {abc(), cba()}, {cba(), abc()}, {mkM("a", 1)}, {abx(), abc()}}))
	CM := col.Catalog[string, col.MapLike[string, int]](notation)
	mkCM := func(k string, m col.MapLike[string, int]) col.CatalogLike[string, col.MapLike[string, int]] {
		c := CM.Make()
		c.SetValue(k, m)
		return c
	}
	us = append(us, MakeUniv("CatalogLike[string,MapLike[string,int]]", []col.CatalogLike[string, col.MapLike[string, int]]{CM.Make(), mkCM("k", mkM()), mkCM("k", abc()), mkCM("k", cba()), mkCM("k", abx()), mkCM("j", abc()), mkCM("k", mkM("a", 1))}))
	us = append(us, MakeUniv("map[string]MapLike[string,int]", []map[string]col.MapLike[string, int]{{}, {"k": mkM()}, {"k": abc()}, {"k": cba()}, {"k": abx()}, {"j": abc()}, {"k": abc(), "j": cba()}, {"j": abc(), "k": cba()}}))
	// fixed-size Go arrays are sequences too (and are never nil)
	us = append(us, MakeUniv("[3]int", [][3]int{{0, 0, 0}, {0, 0, 1}, {0, 1, 0}, {1, 0, 0}, {-1, 5, 5}, {0, 0, 0}, {math.MaxInt, 0, 0}, {math.MinInt, 9, 9}}))
	us = append(us, MakeUniv("[2]string", [][2]string{{"", ""}, {"", "a"}, {"a", ""}, {"a", "a"}, {"ab", ""}, {"b", "a"}, {"a", "a"}}))
	us = append(us, MakeUniv("[][2]int", [][][2]int{nil, {}, {{0, 0}}, {{0, 1}}, {{0, 0}, {0, 0}}, {{1, 0}}, {{0, 1}, {0, 0}}}))
	return us
}

// AnyLeaves are the canonical dynamic types under `any`.
func AnyLeaves() []any {
	return []any{nil, false, true, int64(-1), int64(0), int64(1), int64(math.MaxInt64), uint64(0), uint64(1), uint64(math.MaxUint64),
		negZero, 0.0, 0.5, -0.5, inf(1), inf(-1), complex(1, 1), complex(1, -1), complex(0, 0), 'a', 'b', rune(0), "", "a", "ab", "b", "\xff"}
}

// wrapKinds builds, for a list of element values, one container of each kind.
func wrapAll(elems []any) []any {
	out := []any{
		append([]any{}, elems...),
		col.Array[any](notation).MakeFromArray(elems),
		col.List[any](notation).MakeFromArray(elems),
		col.Stack[any](notation).MakeFromArray(elems),
		col.Queue[any](notation).MakeFromArray(elems),
	}
	return out
}

func wrapSet(elems []any) any { return col.Set[any](notation).MakeFromArray(elems) }

func wrapAssoc(kind string, keys []any, vals []any) any {
	switch kind {
	case "catalog":
		c := col.Catalog[any, any](notation).Make()
		for i := range keys {
			c.SetValue(keys[i], vals[i])
		}
		return c
	case "map":
		m := col.Map[any, any](notation).Make()
		for i := range keys {
			m.SetValue(keys[i], vals[i])
		}
		return m
	case "gomap":
		m := map[any]any{}
		for i := range keys {
			m[keys[i]] = vals[i]
		}
		return m
	}
	return col.Association[any, any](notation).Make(keys[0], vals[0])
}

// AnyUniverse: leaves closed under the container kinds to depth 3 (structured sample).
func AnyUniverse(block int) *Univ {
	leaves := AnyLeaves()
	var vals []any
	switch block {
	case 0: // leaves only
		vals = leaves
	case 1: // depth-1 containers over a few leaves
		small := []any{nil, int64(0), int64(1), "a", 0.5}
		for _, es := range [][]any{{}, {small[1]}, {small[2]}, {small[1], small[2]}, {small[2], small[1]}, {small[0]}, {small[3], small[1]}, {small[1], small[2], small[3]}, {small[4]}} {
			vals = append(vals, wrapAll(es)...)
		}
		for _, es := range [][]any{{}, {int64(0)}, {int64(1)}, {int64(0), int64(1)}, {int64(1), int64(0)}, {"a", "b"}} {
			vals = append(vals, wrapSet(es))
		}
		for _, kind := range []string{"catalog", "map", "gomap"} {
			vals = append(vals, wrapAssoc(kind, nil, nil), wrapAssoc(kind, []any{"a"}, []any{int64(1)}), wrapAssoc(kind, []any{"a"}, []any{int64(2)}),
				wrapAssoc(kind, []any{"b"}, []any{int64(1)}), wrapAssoc(kind, []any{"a", "b"}, []any{int64(1), int64(2)}), wrapAssoc(kind, []any{"b", "a"}, []any{int64(2), int64(1)}),
				wrapAssoc(kind, []any{"a"}, []any{nil}))
		}
		vals = append(vals, wrapAssoc("assoc", []any{"a"}, []any{int64(1)}), wrapAssoc("assoc", []any{"a"}, []any{int64(2)}), wrapAssoc("assoc", []any{"b"}, []any{int64(1)}), wrapAssoc("assoc", []any{"a"}, []any{nil}))
		vals = append(vals, nil, int64(0), "a")
	default: // depth 2 and 3
		inner := [][]any{{}, {int64(0)}, {int64(0), int64(1)}}
		var lvl1 []any
		for _, es := range inner {
			lvl1 = append(lvl1, wrapAll(es)...)
			lvl1 = append(lvl1, wrapSet(es))
		}
		lvl1 = append(lvl1, wrapAssoc("catalog", []any{"k"}, []any{int64(1)}), wrapAssoc("map", []any{"k"}, []any{int64(1)}), wrapAssoc("gomap", []any{"k"}, []any{int64(1)}))
		// depth 2: each level-1 value alone in a list / in a go slice / as a catalog value
		for i, v := range lvl1 {
			switch i % 3 {
			case 0:
				vals = append(vals, col.List[any](notation).MakeFromArray([]any{v}))
			case 1:
				vals = append(vals, []any{v, int64(0)})
			default:
				vals = append(vals, wrapAssoc("catalog", []any{"x"}, []any{v}))
			}
		}
		// depth 3
		for i, v := range lvl1 {
			if i%4 == 0 {
				vals = append(vals, []any{col.List[any](notation).MakeFromArray([]any{[]any{v}})})
				vals = append(vals, col.Set[any](notation).MakeFromArray([]any{col.List[any](notation).MakeFromArray([]any{v})}))
			}
		}
		vals = append(vals, nil, []any{}, col.List[any](notation).Make())
	}
	return MakeUniv([]string{"any/leaves", "any/depth1", "any/depth2-3"}[block], vals)
}

// NumTyped is the number of typed corner universes; it is a constant so that
// no repository code runs while the binary initialises (UniverseByIndex checks it).
const NumTyped = 42

// NumUniverses is the number of corner universes (typed + three any blocks).
func NumUniverses() int { return NumTyped + 3 }

// UniverseByIndex returns nil when the table and the constant disagree.
func UniverseByIndex(i int) *Univ {
	t := TypedUniverses()
	if len(t) != NumTyped {
		return nil
	}
	if i < len(t) {
		return t[i]
	}
	return AnyUniverse(i - len(t))
}
