package rel

import (
	"fmt"
	"strings"

	age "github.com/craterdog/go-collection-framework/v4/agent"
	col "github.com/craterdog/go-collection-framework/v4/collection"

	"verif/harness/internal/core"
)

// Univ is a finite universe of values of one static type together with the
// real collator of that type.
type Univ struct {
	Name  string
	N     int
	rank  func(i, j int) age.Rank
	comp  func(i, j int) bool
	fresh func()
	Val   func(i int) any
	noise func() // an unrelated comparison on the same collator
	depth func() int
	// rankers obtained from a sorter: the class default and a default sorter's own
	sorterRank func(i, j int) (age.Rank, age.Rank)
}

// MakeUniv binds a typed universe to age.Collator[T].
func MakeUniv[T any](name string, vals []T) *Univ {
	coll := age.Collator[T]().Make()
	u := &Univ{Name: name, N: len(vals)}
	u.rank = func(i, j int) age.Rank { return coll.RankValues(vals[i], vals[j]) }
	u.comp = func(i, j int) bool { return coll.CompareValues(vals[i], vals[j]) }
	u.fresh = func() { coll = age.Collator[T]().Make() }
	u.Val = func(i int) any { return vals[i] }
	u.noise = func() {
		if len(vals) > 1 {
			coll.RankValues(vals[len(vals)-1], vals[0])
			coll.CompareValues(vals[0], vals[len(vals)/2])
		}
	}
	u.depth = func() int { return coll.GetDepth() }
	u.sorterRank = func(i, j int) (age.Rank, age.Rank) {
		return age.Sorter[T]().DefaultRanker()(vals[i], vals[j]), age.Sorter[T]().Make().GetRanker()(vals[i], vals[j])
	}
	return u
}

type cell struct {
	r      age.Rank
	c      bool
	rPanic string
	cPanic string
}

func (u *Univ) eval(i, j int) (out cell) {
	func() {
		defer func() {
			if e := recover(); e != nil {
				out.rPanic = trunc(fmt.Sprint(e))
			}
		}()
		out.r = u.rank(i, j)
	}()
	func() {
		defer func() {
			if e := recover(); e != nil {
				out.cPanic = trunc(fmt.Sprint(e))
			}
		}()
		out.c = u.comp(i, j)
	}()
	return
}

func trunc(s string) string {
	s = strings.ReplaceAll(s, "\n", " ")
	if len(s) > 140 {
		s = s[:140]
	}
	return s
}

func mirror(r age.Rank) age.Rank {
	switch r {
	case age.LesserRank:
		return age.GreaterRank
	case age.GreaterRank:
		return age.LesserRank
	}
	return r
}

func rname(r age.Rank) string { return [...]string{"Lesser", "Equal", "Greater"}[r] }

func natName(k int) string {
	switch {
	case k < 0:
		return "Lesser"
	case k > 0:
		return "Greater"
	}
	return "Equal"
}

// CheckUniverse evaluates all pairs (three times: same collator, same
// collator again after unrelated calls, fresh collator) and all triples.
// prop selects which laws are reported: "C07" (ranking) or "C08" (comparison
// and its agreement with ranking).
func CheckUniverse(c *core.Ctx, u *Univ, prop string) {
	if u == nil {
		c.Inconclusive("the table of corner universes and the constant rel.NumTyped disagree (harness)")
		return
	}
	n := u.N
	m := make([][]cell, n)
	cls := make([]string, n)
	for i := 0; i < n; i++ {
		cls[i] = Classify(u.Val(i))
		m[i] = make([]cell, n)
	}
	reported := map[string]bool{}
	report := func(sig string, idx []int, format string, a ...any) {
		// one report per (law, value classes)
		cl := map[string]bool{}
		var cs []string
		for _, i := range idx {
			if !cl[cls[i]] {
				cl[cls[i]] = true
				cs = append(cs, cls[i])
			}
		}
		sortStrings(cs)
		full := sig + "/" + u.Name + "/" + strings.Join(cs, ",")
		if reported[full] {
			return
		}
		reported[full] = true
		vals := map[string]any{"universe": u.Name}
		for k, i := range idx {
			vals[string(rune('a'+k))] = Show(u.Val(i))
		}
		c.Violation(full, fmt.Sprintf(format, a...), vals)
	}
	// pass 1
	for i := 0; i < n; i++ {
		for j := 0; j < n; j++ {
			m[i][j] = u.eval(i, j)
		}
	}
	// pass 2: same collator, after unrelated calls; pass 3: fresh collator
	for pass := 2; pass <= 3; pass++ {
		if pass == 3 {
			u.fresh()
		}
		for i := 0; i < n; i++ {
			for j := 0; j < n; j++ {
				if pass == 2 && (i+j)%3 == 0 {
					func() {
						defer func() { recover() }()
						u.noise()
					}()
				}
				x := u.eval(i, j)
				if x != m[i][j] {
					what := "on the same collator after other calls"
					if pass == 3 {
						what = "on a fresh collator"
					}
					if prop == "C07" && (x.r != m[i][j].r || x.rPanic != m[i][j].rPanic) {
						report("rank/unstable", []int{i, j}, "RankValues(a,b) gave %s%s first and %s%s %s", rname(m[i][j].r), m[i][j].rPanic, rname(x.r), x.rPanic, what)
					}
					if prop == "C08" && (x.c != m[i][j].c || x.cPanic != m[i][j].cPanic) {
						report("compare/unstable", []int{i, j}, "CompareValues(a,b) gave %v%s first and %v%s %s", m[i][j].c, m[i][j].cPanic, x.c, x.cPanic, what)
					}
				}
			}
		}
	}
	if d := u.depth(); d != 0 {
		report(strings.ToLower(prop)+"/depth-not-restored", nil, "GetDepth()=%d after the calls returned", d)
	}
	pairs, triples := 0, 0
	for i := 0; i < n; i++ {
		for j := 0; j < n; j++ {
			x := m[i][j]
			pairs++
			if prop == "C07" {
				if x.rPanic != "" {
					report("rank/panicked", []int{i, j}, "RankValues(a,b) panicked: %s", x.rPanic)
					continue
				}
				if i == j && x.r != age.EqualRank {
					report("rank/reflexivity", []int{i}, "RankValues(a,a)=%s", rname(x.r))
				}
				if y := m[j][i]; y.rPanic == "" && y.r != mirror(x.r) {
					report("rank/antisymmetry", []int{i, j}, "RankValues(a,b)=%s but RankValues(b,a)=%s", rname(x.r), rname(y.r))
				}
				if k, ok := NatRank(u.Val(i), u.Val(j)); ok && natName(k) != rname(x.r) {
					report("rank/natural-order", []int{i, j}, "RankValues(a,b)=%s, the natural order says %s", rname(x.r), natName(k))
				}
				// ranking functions obtained from sorters order values the same way
				func() {
					defer func() {
						if e := recover(); e != nil {
							report("rank/sorter-ranker-panicked", []int{i, j}, "a ranker obtained from Sorter panicked: %s", trunc(fmt.Sprint(e)))
						}
					}()
					if d, o := u.sorterRank(i, j); d != x.r || o != x.r {
						report("rank/sorter-ranker-differs", []int{i, j}, "RankValues(a,b)=%s but Sorter.DefaultRanker says %s and a default sorter's ranker %s", rname(x.r), rname(d), rname(o))
					}
				}()
			} else {
				if x.cPanic != "" {
					report("compare/panicked", []int{i, j}, "CompareValues(a,b) panicked: %s", x.cPanic)
					continue
				}
				if i == j && !x.c {
					report("compare/reflexivity", []int{i}, "CompareValues(a,a)=false")
				}
				if y := m[j][i]; y.cPanic == "" && y.c != x.c {
					report("compare/symmetry", []int{i, j}, "CompareValues(a,b)=%v but CompareValues(b,a)=%v", x.c, y.c)
				}
				if x.rPanic == "" && x.c != (x.r == age.EqualRank) {
					report("compare/disagrees-with-rank", []int{i, j}, "CompareValues(a,b)=%v but RankValues(a,b)=%s", x.c, rname(x.r))
				}
				if eq, ok := StructEqual(u.Val(i), u.Val(j)); ok && x.c != eq {
					report("compare/structural-equality", []int{i, j}, "CompareValues(a,b)=%v, structurally the values are %s", x.c, map[bool]string{true: "equal", false: "different"}[eq])
				}
			}
		}
	}
	le := func(x cell) bool { return x.rPanic == "" && x.r != age.GreaterRank }
	for i := 0; i < n; i++ {
		for j := 0; j < n; j++ {
			if prop == "C07" && !le(m[i][j]) || prop == "C08" && !(m[i][j].cPanic == "" && m[i][j].c) {
				continue
			}
			for k := 0; k < n; k++ {
				triples++
				if prop == "C07" {
					if le(m[j][k]) && m[i][k].rPanic == "" && m[i][k].r == age.GreaterRank {
						report("rank/transitivity", []int{i, j, k}, "a<=b (%s) and b<=c (%s) but RankValues(a,c)=Greater", rname(m[i][j].r), rname(m[j][k].r))
					}
				} else if m[j][k].cPanic == "" && m[j][k].c && m[i][k].cPanic == "" && !m[i][k].c {
					report("compare/transitivity", []int{i, j, k}, "a==b and b==c but CompareValues(a,c)=false")
				}
			}
		}
	}
	c.CoverN("pairs", pairs)
	c.CoverN("triples", triples)
	c.Cover("universe." + u.Name)
	c.Distinct(core.Mix(core.HashStr(prop+u.Name), uint64(n)))
	for i := 0; i < n; i++ {
		c.Distinct(core.Mix(core.HashStr(prop+u.Name), core.HashStr(Show(u.Val(i)))))
	}
	if c.WantSample("universe") {
		var vs []string
		for i := 0; i < n && i < 12; i++ {
			vs = append(vs, Show(u.Val(i)))
		}
		c.Sample("universe", map[string]any{"universe": u.Name, "size": n, "pairs": pairs, "triples_checked": triples, "first_values": vs})
	}
}

func sortStrings(s []string) {
	for i := 1; i < len(s); i++ {
		for j := i; j > 0 && s[j] < s[j-1]; j-- {
			s[j], s[j-1] = s[j-1], s[j]
		}
	}
}

// ---- reproducers of recorded findings ----

func ReproNaNRank() (bool, string) {
	c := age.Collator[float64]().Make()
	n := nan
	// 1 <= NaN and NaN <= 0 although 1 > 0
	if c.RankValues(1, n) != age.GreaterRank && c.RankValues(n, 0) != age.GreaterRank && c.RankValues(1, 0) == age.GreaterRank {
		return true, "RankValues(1,NaN)<=, RankValues(NaN,0)<= but RankValues(1,0)=Greater (not transitive)"
	}
	if !c.CompareValues(n, n) && c.RankValues(n, n) == age.EqualRank {
		return true, "CompareValues(NaN,NaN)=false although RankValues(NaN,NaN)=Equal"
	}
	return false, "NaN is ordered consistently"
}

func ReproComplexRank() (bool, string) {
	c := age.Collator[complex128]().Make()
	a, b, x := complex(-1, 0), complex(-1, negZero), complex(-1, 1e-10)
	le := func(p, q complex128) bool { return c.RankValues(p, q) != age.GreaterRank }
	if le(a, b) && le(b, x) && !le(a, x) {
		return true, "RankValues: (-1+0i)<=(-1-0i), (-1-0i)<=(-1+1e-10i) but (-1+0i)>(-1+1e-10i) (not transitive)"
	}
	p, q := complex(1.5e308, 1.5e308), complex(1.6e308, 1.6e308)
	if c.RankValues(p, q) == age.EqualRank {
		return true, "two different vectors with overflowing magnitude rank Equal"
	}
	return false, "complex ranking is a total order on the probes"
}

// ReproMapBehindInterface: two lists whose element type is MapLike hold equal
// maps built in opposite insertion orders.  which = "rank" (C07) or "compare" (C08).
func ReproMapBehindInterface(which string) (bool, string) {
	M := col.Map[string, int](notation)
	mk := func(rev bool) col.MapLike[string, int] {
		ks := []string{"a", "b", "c", "d", "e", "f", "g"}
		m := M.Make()
		for i := range ks {
			j := i
			if rev {
				j = len(ks) - 1 - i
			}
			m.SetValue(ks[j], j)
		}
		return m
	}
	L := col.List[col.MapLike[string, int]](notation)
	coll := age.Collator[col.ListLike[col.MapLike[string, int]]]().Make()
	for i := 0; i < 50; i++ {
		a := L.MakeFromArray([]col.MapLike[string, int]{mk(false)})
		b := L.MakeFromArray([]col.MapLike[string, int]{mk(true)})
		if which == "rank" {
			if r1, r2 := coll.RankValues(a, b), coll.RankValues(b, a); r1 != age.EqualRank || r2 != age.EqualRank {
				return true, fmt.Sprintf("two List[MapLike[string,int]] holding equal maps: RankValues(a,b)=%s, RankValues(b,a)=%s", rname(r1), rname(r2))
			}
		} else if !coll.CompareValues(a, b) {
			return true, "two List[MapLike[string,int]] holding equal maps (built in opposite insertion orders) compare unequal"
		}
	}
	return false, "lists of equal maps behind the MapLike interface are Equal"
}

// ReproFixedArray: values of a fixed-size Go array type.
func ReproFixedArray() (bool, string) {
	var d string
	func() {
		defer func() {
			if e := recover(); e != nil {
				d = "comparing or ranking two [3]int values panics: " + trunc(fmt.Sprint(e))
			}
		}()
		c := age.Collator[[3]int]().Make()
		switch {
		case c.RankValues([3]int{1, 2, 3}, [3]int{1, 2, 4}) != age.LesserRank:
			d = "[1 2 3] does not rank before [1 2 4]"
		case !c.CompareValues([3]int{1, 2, 3}, [3]int{1, 2, 3}):
			d = "[1 2 3] does not compare equal to itself"
		}
	}()
	return d != "", d + map[bool]string{true: "", false: "fixed-size arrays are compared and ranked element by element"}[d != ""]
}
