package rel

import "testing"

func TestNatRank(t *testing.T) {
	type c struct {
		a, b any
		rank int
		def  bool
	}
	for i, x := range []c{
		{nil, 1, -1, true}, {1, nil, 1, true}, {nil, nil, 0, true},
		{false, true, -1, true}, {int8(-1), int8(1), -1, true}, {"a", "ab", -1, true}, {"b", "ab", 1, true},
		{[]int{1}, []int{1, 0}, -1, true}, {[]int{2}, []int{1, 5}, 1, true}, {[]int(nil), []int{}, -1, true},
		{map[string]int{"a": 1}, map[string]int{"a": 2}, -1, true}, {map[string]int{"a": 1, "b": 0}, map[string]int{"b": 0, "a": 1}, 0, true},
		{map[string]int{"a": 1}, map[string]int{"a": 1, "b": 0}, -1, true},
		{1, "1", 0, false}, {nan, 1.0, 0, false}, {complex(1, 1), complex(1, 2), 0, false}, {complex(1, 1), complex(1, 1), 0, true},
	} {
		r, d := NatRank(x.a, x.b)
		if d != x.def || (d && r != x.rank) {
			t.Errorf("case %d: NatRank(%v,%v)=(%d,%v) want (%d,%v)", i, x.a, x.b, r, d, x.rank, x.def)
		}
	}
	if eq, ok := StructEqual([]any{1, "a"}, []any{1, "a"}); !ok || !eq {
		t.Error("StructEqual equal slices")
	}
	if eq, ok := StructEqual(map[string]any{"a": 1}, map[string]any{"a": 2}); !ok || eq {
		t.Error("StructEqual different maps")
	}
	if _, ok := StructEqual(nan, nan); ok {
		t.Error("StructEqual must be undefined for NaN")
	}
}
