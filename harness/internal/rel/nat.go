// Package rel holds the law monitors for the collator (C07, C08): an
// independent natural-order function, structured value universes, a recipe
// based value generator with rebuilt copies and single-point mutations, and the
// cyclic battery.
package rel

import (
	"fmt"
	"math"
	"math/cmplx"
	"reflect"
	"sort"
	"strings"
)

// NatRank is the harness's own statement of the natural order of C07:
// false<true, numeric order, byte-wise string order, lexicographic with a
// proper prefix first for sequences, key-then-value over sorted keys for maps,
// nil before every defined value.  defined=false where the statement fixes no
// order (NaN, complex numbers, different dynamic types).
func NatRank(a, b any) (rank int, defined bool) {
	return natV(reflect.ValueOf(a), reflect.ValueOf(b))
}

func sgn(less, greater bool) int {
	switch {
	case less:
		return -1
	case greater:
		return 1
	}
	return 0
}

func isNilV(v reflect.Value) bool {
	if !v.IsValid() {
		return true
	}
	switch v.Kind() {
	case reflect.Interface, reflect.Pointer, reflect.Slice, reflect.Map:
		return v.IsNil()
	}
	return false
}

func natV(a, b reflect.Value) (int, bool) {
	// unwrap interfaces
	for a.IsValid() && a.Kind() == reflect.Interface && !a.IsNil() {
		a = a.Elem()
	}
	for b.IsValid() && b.Kind() == reflect.Interface && !b.IsNil() {
		b = b.Elem()
	}
	an, bn := isNilV(a), isNilV(b)
	if an || bn {
		if an && bn {
			// both undefined: equal when of the same (or no) type
			if !a.IsValid() || !b.IsValid() || a.Type() == b.Type() {
				return 0, true
			}
			return 0, false
		}
		if an {
			return -1, true
		}
		return 1, true
	}
	if a.Type() != b.Type() {
		return 0, false
	}
	switch a.Kind() {
	case reflect.Bool:
		return sgn(!a.Bool() && b.Bool(), a.Bool() && !b.Bool()), true
	case reflect.Int, reflect.Int8, reflect.Int16, reflect.Int32, reflect.Int64:
		return sgn(a.Int() < b.Int(), a.Int() > b.Int()), true
	case reflect.Uint, reflect.Uint8, reflect.Uint16, reflect.Uint32, reflect.Uint64, reflect.Uintptr:
		return sgn(a.Uint() < b.Uint(), a.Uint() > b.Uint()), true
	case reflect.Float32, reflect.Float64:
		x, y := a.Float(), b.Float()
		if math.IsNaN(x) || math.IsNaN(y) {
			return 0, false
		}
		return sgn(x < y, x > y), true
	case reflect.Complex64, reflect.Complex128:
		if a.Complex() == b.Complex() {
			return 0, true
		}
		return 0, false
	case reflect.String:
		return sgn(a.String() < b.String(), a.String() > b.String()), true
	case reflect.Slice, reflect.Array:
		return natSeq(a, b)
	case reflect.Map:
		return natMap(a, b)
	case reflect.Pointer:
		if m := a.MethodByName("AsArray"); m.IsValid() {
			x := m.Call(nil)[0]
			y := b.MethodByName("AsArray").Call(nil)[0]
			return natSeq(x, y)
		}
		if m := a.MethodByName("GetKey"); m.IsValid() {
			k, ok := natV(m.Call(nil)[0], b.MethodByName("GetKey").Call(nil)[0])
			if !ok || k != 0 {
				return k, ok
			}
			return natV(a.MethodByName("GetValue").Call(nil)[0], b.MethodByName("GetValue").Call(nil)[0])
		}
		if a.NumMethod() == 0 {
			return natV(a.Elem(), b.Elem())
		}
	}
	return 0, false
}

func natSeq(a, b reflect.Value) (int, bool) {
	n := a.Len()
	if b.Len() < n {
		n = b.Len()
	}
	for i := 0; i < n; i++ {
		k, ok := natV(a.Index(i), b.Index(i))
		if !ok || k != 0 {
			return k, ok
		}
	}
	return sgn(a.Len() < b.Len(), a.Len() > b.Len()), true
}

func natMap(a, b reflect.Value) (int, bool) {
	ka, kb := a.MapKeys(), b.MapKeys()
	okSort := true
	less := func(ks []reflect.Value) func(i, j int) bool {
		return func(i, j int) bool {
			k, ok := natV(ks[i], ks[j])
			if !ok {
				okSort = false
			}
			return k < 0
		}
	}
	sort.Slice(ka, less(ka))
	sort.Slice(kb, less(kb))
	if !okSort {
		return 0, false
	}
	n := len(ka)
	if len(kb) < n {
		n = len(kb)
	}
	for i := 0; i < n; i++ {
		k, ok := natV(ka[i], kb[i])
		if !ok || k != 0 {
			return k, ok
		}
		k, ok = natV(a.MapIndex(ka[i]), b.MapIndex(kb[i]))
		if !ok || k != 0 {
			return k, ok
		}
	}
	return sgn(len(ka) < len(kb), len(ka) > len(kb)), true
}

// Classify names the special leaves a value contains; used for violation
// signatures ("nan", "complex-overflow", "plain").
func Classify(v any) string {
	var tags []string
	seen := map[string]bool{}
	var walk func(x reflect.Value, depth int)
	add := func(t string) {
		if !seen[t] {
			seen[t] = true
			tags = append(tags, t)
		}
	}
	walk = func(x reflect.Value, depth int) {
		if depth > 6 || !x.IsValid() {
			return
		}
		switch x.Kind() {
		case reflect.Interface:
			if !x.IsNil() {
				walk(x.Elem(), depth)
			}
		case reflect.Float32, reflect.Float64:
			if math.IsNaN(x.Float()) {
				add("nan")
			}
		case reflect.Complex64, reflect.Complex128:
			c := x.Complex()
			if cmplx.IsNaN(c) {
				add("nan")
			} else if math.IsInf(cmplx.Abs(c), 0) {
				add("complex-overflow")
			}
		case reflect.Slice, reflect.Array:
			for i := 0; i < x.Len(); i++ {
				walk(x.Index(i), depth+1)
			}
		case reflect.Map:
			it := x.MapRange()
			for it.Next() {
				walk(it.Key(), depth+1)
				walk(it.Value(), depth+1)
			}
		case reflect.Pointer:
			if x.IsNil() {
				return
			}
			if m := x.MethodByName("AsArray"); m.IsValid() {
				walk(m.Call(nil)[0], depth+1)
			} else if m := x.MethodByName("GetKey"); m.IsValid() {
				walk(m.Call(nil)[0], depth+1)
				walk(x.MethodByName("GetValue").Call(nil)[0], depth+1)
			}
		}
	}
	walk(reflect.ValueOf(v), 0)
	if len(tags) == 0 {
		return "plain"
	}
	sort.Strings(tags)
	return strings.Join(tags, "+")
}

// Show prints a value compactly with its dynamic type.
func Show(v any) string {
	s := show(reflect.ValueOf(v), 0)
	if len(s) > 300 {
		s = s[:300] + "…"
	}
	return s
}

func show(x reflect.Value, depth int) string {
	if !x.IsValid() {
		return "nil"
	}
	if depth > 6 {
		return "…"
	}
	switch x.Kind() {
	case reflect.Interface:
		if x.IsNil() {
			return "nil"
		}
		return show(x.Elem(), depth)
	case reflect.Slice, reflect.Array:
		if x.Kind() == reflect.Slice && x.IsNil() {
			return shortType(x.Type().String()) + "(nil)"
		}
		parts := make([]string, x.Len())
		for i := range parts {
			parts[i] = show(x.Index(i), depth+1)
		}
		return shortType(x.Type().String()) + "[" + strings.Join(parts, " ") + "]"
	case reflect.Map:
		if x.IsNil() {
			return shortType(x.Type().String()) + "(nil)"
		}
		keys := x.MapKeys()
		parts := make([]string, len(keys))
		for i, k := range keys {
			parts[i] = show(k, depth+1) + ":" + show(x.MapIndex(k), depth+1)
		}
		sort.Strings(parts)
		return shortType(x.Type().String()) + "{" + strings.Join(parts, " ") + "}"
	case reflect.Pointer:
		if x.IsNil() {
			return shortType(x.Type().String()) + "(nil)"
		}
		if m := x.MethodByName("AsArray"); m.IsValid() {
			return shortType(x.Type().String()) + show(m.Call(nil)[0], depth+1)
		}
		if m := x.MethodByName("GetKey"); m.IsValid() {
			return "(" + show(m.Call(nil)[0], depth+1) + ": " + show(x.MethodByName("GetValue").Call(nil)[0], depth+1) + ")"
		}
		if x.NumMethod() == 0 {
			return "&" + show(x.Elem(), depth+1)
		}
		return shortType(x.Type().String())
	case reflect.Float32, reflect.Float64:
		f := x.Float()
		if f == 0 && math.Signbit(f) {
			return fmt.Sprintf("%s(-0)", x.Type())
		}
		return fmt.Sprintf("%s(%v)", x.Type(), f)
	case reflect.String:
		return fmt.Sprintf("%q", x.String())
	}
	return fmt.Sprintf("%s(%v)", x.Type(), x.Interface())
}

func shortType(s string) string {
	s = strings.ReplaceAll(s, "github.com/craterdog/go-collection-framework/v4/collection.", "")
	s = strings.ReplaceAll(s, "collection.", "")
	s = strings.ReplaceAll(s, "interface {}", "any")
	return s
}

// StructEqual is the harness's own structural equality (C08): same dynamic
// types, leaves equal under Go ==, sequences element-wise in order, maps by
// key.  defined=false when a NaN is involved (Go == says NaN differs from
// itself; the statement does not fix it) or the dynamic types differ.
func StructEqual(a, b any) (equal, defined bool) {
	if ca, cb := Classify(a), Classify(b); strings.Contains(ca, "nan") || strings.Contains(cb, "nan") {
		return false, false
	}
	return eqV(reflect.ValueOf(a), reflect.ValueOf(b))
}

func eqV(a, b reflect.Value) (bool, bool) {
	for a.IsValid() && a.Kind() == reflect.Interface && !a.IsNil() {
		a = a.Elem()
	}
	for b.IsValid() && b.Kind() == reflect.Interface && !b.IsNil() {
		b = b.Elem()
	}
	an, bn := isNilV(a), isNilV(b)
	if an || bn {
		if an && bn {
			if !a.IsValid() || !b.IsValid() || a.Type() == b.Type() {
				return true, true
			}
			return false, false
		}
		return false, true
	}
	if a.Type() != b.Type() {
		return false, false
	}
	switch a.Kind() {
	case reflect.Bool, reflect.Int, reflect.Int8, reflect.Int16, reflect.Int32, reflect.Int64,
		reflect.Uint, reflect.Uint8, reflect.Uint16, reflect.Uint32, reflect.Uint64, reflect.Uintptr,
		reflect.Float32, reflect.Float64, reflect.Complex64, reflect.Complex128, reflect.String:
		return a.Interface() == b.Interface(), true
	case reflect.Slice, reflect.Array:
		return eqSeq(a, b)
	case reflect.Map:
		if a.Len() != b.Len() {
			return false, true
		}
		it := a.MapRange()
		for it.Next() {
			bv := b.MapIndex(it.Key())
			if !bv.IsValid() {
				return false, true
			}
			if e, ok := eqV(it.Value(), bv); !ok || !e {
				return e, ok
			}
		}
		return true, true
	case reflect.Pointer:
		if m := a.MethodByName("AsArray"); m.IsValid() {
			x, y := m.Call(nil)[0], b.MethodByName("AsArray").Call(nil)[0]
			if x.Kind() == reflect.Slice && x.Len() > 0 && x.Index(0).Kind() == reflect.Interface && a.MethodByName("GetKeys").IsValid() {
				// an ordered catalog: associations in order
				return eqSeq(x, y)
			}
			return eqSeq(x, y)
		}
		if m := a.MethodByName("GetKey"); m.IsValid() {
			if e, ok := eqV(m.Call(nil)[0], b.MethodByName("GetKey").Call(nil)[0]); !ok || !e {
				return e, ok
			}
			return eqV(a.MethodByName("GetValue").Call(nil)[0], b.MethodByName("GetValue").Call(nil)[0])
		}
		if a.NumMethod() == 0 {
			return eqV(a.Elem(), b.Elem())
		}
	}
	return false, false
}

func eqSeq(a, b reflect.Value) (bool, bool) {
	if a.Len() != b.Len() {
		return false, true
	}
	for i := 0; i < a.Len(); i++ {
		if e, ok := eqV(a.Index(i), b.Index(i)); !ok || !e {
			return e, ok
		}
	}
	return true, true
}
