// Package cdcnmon holds the monitors for the CDCN notation (C10, C11, C12):
// a value generator with a canonical-tree comparison, a grammar-derivation
// generator with an independent evaluator, the totality classifier and the
// scanner-goroutine leak monitor.
package cdcnmon

import (
	"fmt"
	"math"
	"sort"
	"strconv"
	"strings"

	cdc "github.com/craterdog/go-collection-framework/v4/cdcn"
	col "github.com/craterdog/go-collection-framework/v4/collection"

	"verif/harness/internal/core"
)

var notation = cdc.Notation().Make()

// ---- canonical trees ----

// Canon renders a value built from the canonical dynamic types and the seven
// collection kinds as a canonical string: kind tags from the public
// interfaces, items through AsArray, leaves bit-exactly, Maps as sorted
// key->value sets.  multiMap reports whether a Map with more than one entry
// occurs (its text order is unspecified).
func Canon(v any) (s string, multiMap bool) {
	var sb strings.Builder
	mm := false
	var walk func(x any, depth int)
	walk = func(x any, depth int) {
		if depth > 64 {
			sb.WriteString("<too deep>")
			return
		}
		switch a := x.(type) {
		case nil:
			sb.WriteString("nil")
		case bool:
			fmt.Fprintf(&sb, "bool:%v", a)
		case int64:
			fmt.Fprintf(&sb, "i64:%d", a)
		case uint64:
			fmt.Fprintf(&sb, "u64:%d", a)
		case float64:
			fmt.Fprintf(&sb, "f64:%016x", math.Float64bits(a))
		case complex128:
			fmt.Fprintf(&sb, "c128:%016x,%016x", math.Float64bits(real(a)), math.Float64bits(imag(a)))
		case rune:
			fmt.Fprintf(&sb, "rune:%d", a)
		case string:
			fmt.Fprintf(&sb, "str:%q", a)
		case col.CatalogLike[any, any]:
			sb.WriteString("Catalog{")
			for i, as := range a.AsArray() {
				if i > 0 {
					sb.WriteByte(' ')
				}
				walk(as.GetKey(), depth+1)
				sb.WriteString("=>")
				walk(as.GetValue(), depth+1)
			}
			sb.WriteByte('}')
		case col.MapLike[any, any]:
			if a.GetSize() > 1 {
				mm = true
			}
			var ents []string
			for _, as := range a.AsArray() {
				k, _ := Canon(as.GetKey())
				val, m2 := Canon(as.GetValue())
				mm = mm || m2
				ents = append(ents, k+"=>"+val)
			}
			sort.Strings(ents)
			sb.WriteString("Map{" + strings.Join(ents, " ") + "}")
		case col.ListLike[any]:
			seqCanon(&sb, "List", a.AsArray(), walk, depth)
		case col.SetLike[any]:
			seqCanon(&sb, "Set", a.AsArray(), walk, depth)
		case col.StackLike[any]:
			seqCanon(&sb, "Stack", a.AsArray(), walk, depth)
		case col.QueueLike[any]:
			seqCanon(&sb, "Queue", a.AsArray(), walk, depth)
		case col.ArrayLike[any]:
			seqCanon(&sb, "Array", a.AsArray(), walk, depth)
		default:
			fmt.Fprintf(&sb, "<%T:%v>", x, x)
		}
	}
	walk(v, 0)
	return sb.String(), mm
}

func seqCanon(sb *strings.Builder, kind string, items []any, walk func(any, int), depth int) {
	sb.WriteString(kind + "[")
	for i, it := range items {
		if i > 0 {
			sb.WriteByte(' ')
		}
		walk(it, depth+1)
	}
	sb.WriteByte(']')
}

// ---- leaf classes ----

var floatCorners = []float64{0, math.Copysign(0, -1), 1, -1, 3, 0.5, 0.125, -0.25, 1.5,
	99999, 100000, 999999, 1e6, 1.5e6, 1234567, 1e7, 1e15, 123456789012345678, 1e20, 1e21, 1.5e21, 1e22, 1e100, 1.7e308, math.MaxFloat64,
	0.001, 0.0001, 0.00011, 0.00001, 1.5e-5, 1e-7, 1.5e-7, 1e-10, 1e-99, 1e-100, 1.1e-100, 2.2e200, 1e-300, 2.2250738585072014e-308, 5e-324, 1e-323,
	-1e6, -1e21, -1e-7, -5e-324, -math.MaxFloat64, 0.1, 0.3, 1.0 / 3.0, 2.0 / 3.0, 1e9, 1e-5}

func genFloat(r *core.Rng) float64 {
	switch r.Intn(4) {
	case 0, 1:
		return floatCorners[r.Intn(len(floatCorners))]
	case 2:
		// random mantissa and decimal exponent across the whole range
		m := float64(r.Intn(2000000)-1000000) / float64([]int{1, 10, 1000, 1000000}[r.Intn(4)])
		e := r.Range(-320, 300)
		f := m * math.Pow(10, float64(e))
		if math.IsInf(f, 0) || math.IsNaN(f) {
			return m
		}
		return f
	default:
		f := math.Float64frombits(r.Uint64())
		if math.IsInf(f, 0) || math.IsNaN(f) {
			return 0.5
		}
		return f
	}
}

var runeCorners = []rune{'a', 'Z', '0', ' ', 0, '\n', '\t', '\r', 0x7f, 0x1b, '\'', '"', '\\', 'é', 'ß', 0x2028, 0xA0, 0xFFFD, 0xFEFF, 0x1F600, 0x10FFFF, 0xE0001, 0x0378, '☺', '['}

func genRune(r *core.Rng) rune {
	if r.Chance(3, 4) {
		return runeCorners[r.Intn(len(runeCorners))]
	}
	for {
		c := rune(r.Intn(0x110000))
		if c < 0xD800 || c > 0xDFFF {
			return c
		}
	}
}

var stringCorners = []string{"", "a", "Hello World!", "tab\there", "line\nbreak", "quote\"inside", "back\\slash", "it's", "é", "日本語", "\U0001F600 smile", "\xff", "\xc3\x28", "a\x00b",
	" ", "nil", "true", "0x1f", "[1, 2](List)", "(1.0+2.0i)", " ", "  leading", "trailing  ", "a: b", "\a\b\f\r\v",
	"0123456789012345678901234567890123456789012345678901234567890123456789", "\x7f", " ", "�", "'"}

func genString(r *core.Rng) string {
	if r.Chance(2, 3) {
		return stringCorners[r.Intn(len(stringCorners))]
	}
	n := r.Intn(12)
	b := make([]byte, n)
	for i := range b {
		b[i] = byte(r.Intn(256))
	}
	return string(b)
}

func genInt(r *core.Rng) int64 {
	c := []int64{0, 1, -1, 42, math.MaxInt64, math.MinInt64, math.MaxInt64 - 1, math.MinInt64 + 1, 1 << 32, -1 << 32, 9, 10, -10, 1000000}
	if r.Chance(2, 3) {
		return c[r.Intn(len(c))]
	}
	return int64(r.Uint64())
}

func genUint(r *core.Rng) uint64 {
	c := []uint64{0, 1, 10, 15, 16, 255, 256, math.MaxUint64, math.MaxUint64 - 1, 1 << 63, 0xdeadbeef}
	if r.Chance(2, 3) {
		return c[r.Intn(len(c))]
	}
	return r.Uint64()
}

// GenLeaf draws a leaf of a canonical dynamic type.
func GenLeaf(r *core.Rng) any {
	switch r.Intn(9) {
	case 0:
		return nil
	case 1:
		return r.Bool()
	case 2:
		return genInt(r)
	case 3:
		return genUint(r)
	case 4, 5:
		return genFloat(r)
	case 6:
		return complex(genFloat(r), genFloat(r))
	case 7:
		return genRune(r)
	default:
		return genString(r)
	}
}

// keyOf makes leaves usable as distinct map keys (Go ==).
func distinctKeys(r *core.Rng, n int) []any {
	var ks []any
	for tries := 0; len(ks) < n && tries < 10*n+10; tries++ {
		k := GenLeaf(r)
		dup := false
		for _, e := range ks {
			if e == k {
				dup = true
			}
		}
		if !dup {
			ks = append(ks, k)
		}
	}
	return ks
}

var Kinds = []string{"Array", "List", "Set", "Stack", "Queue", "Catalog", "Map"}

// GenCollection builds a collection of `any` with items nested up to depth.
func GenCollection(r *core.Rng, depth int) any {
	kind := Kinds[r.Intn(len(Kinds))]
	n := 0
	switch r.Intn(6) {
	case 0:
		n = 0
	case 1:
		n = 1
	case 2, 3:
		n = r.Range(2, 5)
	case 4:
		n = r.Range(2, 12)
	default:
		n = r.Range(13, 40)
	}
	if depth > 0 && n > 6 {
		n = r.Range(2, 6) // keep nested documents small
	}
	if kind == "Queue" && n > 16 {
		n = r.Range(0, 16)
	}
	item := func() any {
		if depth > 0 && r.Chance(1, 3) {
			return GenCollection(r, depth-1)
		}
		return GenLeaf(r)
	}
	items := make([]any, n)
	for i := range items {
		items[i] = item()
	}
	return BuildKind(r, kind, items)
}

// BuildKind makes a collection of the kind from items (for Catalog/Map the
// items become values under freshly drawn distinct keys).
func BuildKind(r *core.Rng, kind string, items []any) any {
	switch kind {
	case "Array":
		return col.Array[any](notation).MakeFromArray(items)
	case "List":
		return col.List[any](notation).MakeFromArray(items)
	case "Set":
		return col.Set[any](notation).MakeFromArray(items)
	case "Stack":
		return col.Stack[any](notation).MakeFromArray(items)
	case "Queue":
		return col.Queue[any](notation).MakeFromArray(items)
	case "Catalog":
		c := col.Catalog[any, any](notation).Make()
		for i, k := range distinctKeys(r, len(items)) {
			c.SetValue(k, items[i])
		}
		return c
	default:
		m := col.Map[any, any](notation).Make()
		for i, k := range distinctKeys(r, len(items)) {
			m.SetValue(k, items[i])
		}
		return m
	}
}

// sortedLines is the sound relaxation of "equal up to the order of a Map".
func sortedLines(s string) string {
	l := strings.Split(s, "\n")
	for i := range l {
		l[i] = strings.TrimSpace(l[i])
	}
	sort.Strings(l)
	return strings.Join(l, "\n")
}

func clip(s string, n int) string {
	if len(s) > n {
		return s[:n] + "…(" + strconv.Itoa(len(s)) + " bytes)"
	}
	return s
}
