package cdcnmon

import (
	"errors"
	"strings"
	"testing"
)

type rtErr struct{ error }

func (rtErr) RuntimeError() {}

func TestClassifier(t *testing.T) {
	src := "[1, 2]\n(List)x"
	diag := func(typ string, line, pos int, text string) Outcome {
		return Outcome{Panicked: true, Payload: "An unexpected token was received by the parser: Token [type: " + typ + ", line: " + itoa(line) + ", position: " + itoa(pos) + "]: " + text + "\n..."}
	}
	cases := []struct {
		o    Outcome
		want string
	}{
		{Outcome{Value: 1}, ""},
		{diag("error", 2, 7, `"x"`), ""},
		{diag("error", 2, 6, `"x"`), "diagnostic/wrong-location"},
		{diag("error", 5, 1, `"x"`), "diagnostic/location-outside-source"},
		{diag("EOF", 2, 8, `""`), ""},
		{diag("EOF", 1, 1, `""`), "diagnostic/wrong-location/EOF"},
		{diag("EOL", 1, 7, `"<EOLN>"`), ""},
		{Outcome{Panicked: true, Payload: rtErr{errors.New("runtime error: invalid memory address or nil pointer dereference")}}, "totality/runtime-error/nil-dereference"},
		{Outcome{Panicked: true, Payload: "Attempted to add a value onto a stack that has reached its capacity."}, "totality/non-diagnostic-panic"},
		{Outcome{Panicked: true, Payload: 42}, "totality/non-diagnostic-panic"},
	}
	for i, c := range cases {
		sig, _ := ClassifyOutcome(src, c.o)
		if (c.want == "") != (sig == "") || !strings.HasPrefix(sig, c.want) {
			t.Errorf("case %d: got %q want prefix %q", i, sig, c.want)
		}
	}
}

func itoa(n int) string {
	s := ""
	if n == 0 {
		return "0"
	}
	for n > 0 {
		s = string(rune('0'+n%10)) + s
		n /= 10
	}
	return s
}
