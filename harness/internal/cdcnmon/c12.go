package cdcnmon

import (
	"fmt"
	"os"
	"os/exec"
	"path/filepath"
	"regexp"
	"runtime"
	"strconv"
	"strings"
	"time"
	"unicode/utf8"

	mod "github.com/craterdog/go-collection-framework/v4"

	"verif/harness/internal/core"
)

// ---- C12: ParseSource is total ----

var diagRe = regexp.MustCompile(`Token \[type: (\w+), line: (\d+), position: (\d+)\]: ("(?:[^"\\]|\\.)*"(?:\.\.\.)?)`)

var looseDiagRe = regexp.MustCompile(`(?is)line\W{0,3}(\d+)\D{1,24}?(?:position|column|col)\W{0,3}(\d+)`)

// Outcome of one ParseSource call.
type Outcome struct {
	Value    any
	Panicked bool
	Payload  any
	Text     string
}

func Parse(src string) (o Outcome) {
	defer func() {
		if e := recover(); e != nil {
			o.Panicked = true
			o.Payload = e
			o.Text = fmt.Sprint(e)
		}
	}()
	o.Value = mod.ParseSource(src)
	return
}

// offsetOf converts (line, column) - 1-based, columns in runes - to a rune offset.
func offsetOf(runes []rune, line, colm int) (int, bool) {
	off := 0
	for l := 1; l < line; l++ {
		found := false
		for off < len(runes) {
			off++
			if runes[off-1] == '\n' {
				found = true
				break
			}
		}
		if !found {
			return 0, false
		}
	}
	off += colm - 1
	if colm < 1 || off > len(runes) {
		return 0, false
	}
	return off, true
}

var controlNames = map[string]string{"<NULL>": "\x00", "<BELL>": "\a", "<BKSP>": "\b", "<HTAB>": "\t", "<FMFD>": "\f", "<EOLN>": "\n", "<CRTN>": "\r", "<VTAB>": "\v"}

// Classify checks the outcome of ParseSource(src) against the statement of
// C12 and returns ("", "") when it conforms, otherwise (signature, message).
func ClassifyOutcome(src string, o Outcome) (sig, msg string) {
	if !o.Panicked {
		return "", ""
	}
	switch p := o.Payload.(type) {
	case runtime.Error:
		kind := "runtime-error"
		t := p.Error()
		switch {
		case strings.Contains(t, "nil pointer"):
			kind += "/nil-dereference"
		case strings.Contains(t, "interface conversion"):
			kind += "/failed-type-assertion"
		case strings.Contains(t, "index out of range") || strings.Contains(t, "slice bounds"):
			kind += "/index-out-of-range"
		}
		return "totality/" + kind, "ParseSource failed with a Go runtime error instead of a syntax diagnostic: " + t
	case string:
		m := diagRe.FindStringSubmatch(p)
		if m == nil {
			// another wording of a located diagnostic: it must still give a line and a
			// position/column that lie inside the source (the statement does not fix the text)
			if lm := looseDiagRe.FindStringSubmatch(p); lm != nil {
				line, _ := strconv.Atoi(lm[1])
				colm, _ := strconv.Atoi(lm[2])
				if _, ok := offsetOf([]rune(src), line, colm); !ok {
					return "diagnostic/location-outside-source", fmt.Sprintf("the diagnostic points at line %d, position %d, which is outside the source", line, colm)
				}
				return "", ""
			}
			first := strings.SplitN(p, "\n", 2)[0]
			key := first
			if len(key) > 40 {
				key = key[:40]
			}
			return "totality/non-diagnostic-panic/" + key, "ParseSource panicked with a text that is not a located syntax diagnostic: " + clip(first, 200)
		}
		line, _ := strconv.Atoi(m[2])
		colm, _ := strconv.Atoi(m[3])
		runes := []rune(src)
		off, ok := offsetOf(runes, line, colm)
		if !ok {
			return "diagnostic/location-outside-source", fmt.Sprintf("the diagnostic points at line %d, position %d, which is outside the source", line, colm)
		}
		// the named token must be what the source holds at that location
		quoted := m[4]
		truncated := strings.HasSuffix(quoted, "...")
		quoted = strings.TrimSuffix(quoted, "...")
		val, err := strconv.Unquote(quoted)
		if err != nil {
			return "", ""
		}
		if c, ok := controlNames[val]; ok {
			val = c
		}
		switch m[1] {
		case "EOF":
			if off != len(runes) {
				return "diagnostic/wrong-location/EOF", fmt.Sprintf("the EOF token is reported at line %d, position %d but the source ends elsewhere", line, colm)
			}
		default:
			rest := string(runes[off:])
			if !strings.HasPrefix(rest, val) && !(truncated && strings.HasPrefix(rest, strings.ToValidUTF8(val, ""))) {
				return "diagnostic/wrong-location/" + m[1], fmt.Sprintf("the diagnostic names token %s at line %d, position %d but the source there reads %q", quoted, line, colm, clip(rest, 20))
			}
		}
		return "", ""
	default:
		return "totality/non-diagnostic-panic", fmt.Sprintf("ParseSource panicked with a %T: %v", o.Payload, o.Payload)
	}
}

// ---- scanner goroutine leak monitor ----

// scannerGoroutines counts goroutines with a scanTokens frame; blocked counts
// those parked in a channel send (they can never progress: nobody else holds
// their queue).
func scannerGoroutines() (total, blocked int) {
	buf := make([]byte, 1<<16)
	for {
		n := runtime.Stack(buf, true)
		if n < len(buf) {
			buf = buf[:n]
			break
		}
		buf = make([]byte, 2*len(buf))
	}
	for _, g := range strings.Split(string(buf), "\n\n") {
		if !strings.Contains(g, "scanTokens") {
			continue
		}
		total++
		head := strings.SplitN(g, "\n", 2)[0]
		if strings.Contains(head, "[chan send") || strings.Contains(head, "[sync.Mutex.Lock") || strings.Contains(head, "[semacquire") {
			blocked++
		}
	}
	return
}

var leakBaseline int

// CheckLeak is called after ParseSource returned or panicked.
func CheckLeak(c *core.Ctx, src string, cs map[string]any) bool {
	for attempt := 0; attempt < 400; attempt++ {
		total, blocked := scannerGoroutines()
		if total <= leakBaseline {
			return true
		}
		if blocked > leakBaseline && blocked == total && attempt >= 3 {
			leakBaseline = total
			c.Violation("leak/scanner-goroutine-blocked", fmt.Sprintf("after ParseSource ended, %d scanner goroutine(s) remain parked in a channel send on a queue nobody reads any more", blocked), cs)
			return false
		}
		if attempt < 20 {
			runtime.Gosched()
		} else {
			time.Sleep(200 * time.Microsecond)
		}
	}
	total, _ := scannerGoroutines()
	if total > leakBaseline {
		leakBaseline = total
		c.Inconclusive("a scanner goroutine was still running 80 ms after ParseSource ended (watchdog, not a verdict)")
	}
	return true
}

// CheckInput is the complete C12 oracle for one input.
func CheckInput(c *core.Ctx, src, family string) bool {
	cs := map[string]any{"input": clip(src, 800), "family": family, "bytes": len(src)}
	o := Parse(src)
	if sig, msg := ClassifyOutcome(src, o); sig != "" {
		cs["panic"] = clip(o.Text, 400)
		c.Violation(sig, msg, cs)
		CheckLeak(c, src, cs)
		return false
	}
	if o.Panicked {
		c.Cover("outcome.diagnostic")
	} else {
		c.Cover("outcome.value")
	}
	return CheckLeak(c, src, cs)
}

// ---- input families ----

var tokenAlphabet = []string{"[", "]", "(", ")", ":", ",", "\n", " ", "    ", "true", "false", "nil", "0", "1", "-1", "+5", "42", "0x1f", "0.5", "-1.5E+10", "1.0e-3", "(1.0+2.0i)", "(0.0-0.0i)",
	"'a'", "'\\n'", "'\\u00e9'", "\"\"", "\"abc\"", "\"a\\\"b\"", "Array", "Catalog", "List", "Map", "Queue", "Set", "Stack", "bad", "@", "\t", "\"unterminated", "'", "0x", "1.", ".5", "E+3", "(1.0+2.0)", "1e5", "00", "-", "+", "i)", "\\", "\x00", "é", "\xff"}

func randomTokens(r *core.Rng) string {
	n := r.Range(1, 60)
	var sb strings.Builder
	for i := 0; i < n; i++ {
		sb.WriteString(tokenAlphabet[r.Intn(len(tokenAlphabet))])
		if r.Chance(1, 3) {
			sb.WriteByte(' ')
		}
	}
	return sb.String()
}

func randomBytes(r *core.Rng) string {
	n := r.Intn(64)
	b := make([]byte, n)
	for i := range b {
		if r.Chance(3, 4) {
			b[i] = "[](),: \n0123456789abcdefxiE+-.'\"tnrulfs\\AeLMQSCyog"[r.Intn(48)]
		} else {
			b[i] = byte(r.Intn(256))
		}
	}
	return string(b)
}

// validDoc produces a valid document (formatted by the repository itself or by
// the derivation generator).
func validDoc(r *core.Rng) string {
	if r.Bool() {
		s, _ := Derive(r, r.Range(1, 4))
		return s
	}
	return mod.FormatValue(GenCollection(r, r.Intn(3)))
}

func mutateDoc(r *core.Rng, doc string) (string, string) {
	runes := []rune(doc)
	if len(runes) == 0 {
		return doc, "empty"
	}
	p := r.Intn(len(runes))
	ins := []rune("[](),: \n0x1.E+'\"aitn\\@-")
	switch r.Intn(5) {
	case 0:
		return string(runes[:p]), "prefix"
	case 1:
		return string(append(append([]rune{}, runes[:p]...), runes[p+1:]...)), "deletion"
	case 2:
		out := append(append([]rune{}, runes[:p]...), ins[r.Intn(len(ins))])
		return string(append(out, runes[p:]...)), "insertion"
	case 3:
		out := append([]rune{}, runes...)
		out[p] = ins[r.Intn(len(ins))]
		return string(out), "substitution"
	default:
		// swap two chunks
		q := r.Intn(len(runes))
		if p > q {
			p, q = q, p
		}
		return string(runes[q:]) + string(runes[p:q]) + string(runes[:p]), "rotation"
	}
}

// literalSpans returns for every rune whether it lies inside a string or rune literal.
func literalSpans(runes []rune) []bool {
	in := make([]bool, len(runes))
	var quote rune
	for i := 0; i < len(runes); i++ {
		ch := runes[i]
		if quote != 0 {
			in[i] = true
			if ch == '\\' && i+1 < len(runes) {
				in[i+1] = true
				i++
				continue
			}
			if ch == quote {
				quote = 0
			}
			continue
		}
		if ch == '"' || ch == '\'' {
			quote = ch
			in[i] = true
		}
	}
	return in
}

// RunC12Injection: an illegal character injected between the characters of a
// valid multi-line document outside literals; the diagnostic must report an
// error token exactly at the injected character.
func RunC12Injection(c *core.Ctx) {
	r := c.Rng
	var doc string
	for tries := 0; tries < 5; tries++ {
		doc = mod.FormatValue(GenCollection(r, r.Range(1, 3)))
		if strings.Count(doc, "\n") >= 3 {
			break
		}
	}
	runes := []rune(doc)
	in := literalSpans(runes)
	// token boundaries only: the start of a line's content, the end of a line,
	// and directly before or after "[", "]" and "," outside literals (a character
	// inside a number or complex literal legitimately changes the tokenisation
	// of what precedes it)
	var spots []int
	lineStart := true
	for i := 0; i <= len(runes); i++ {
		if i < len(runes) && in[i] && !(lineStart && (runes[i] == '"' || runes[i] == '\'')) {
			lineStart = false
			continue
		}
		atEnd := i == len(runes) || runes[i] == '\n'
		startOfContent := lineStart && i < len(runes) && runes[i] != ' ' && runes[i] != '\n'
		bracket := func(k int) bool {
			return k >= 0 && k < len(runes) && !in[k] && (runes[k] == '[' || runes[k] == ']' || runes[k] == ',')
		}
		if atEnd || startOfContent || bracket(i) || bracket(i-1) {
			spots = append(spots, i)
		}
		if i < len(runes) {
			if runes[i] == '\n' {
				lineStart = true
			} else if runes[i] != ' ' {
				lineStart = false
			}
		}
	}
	if len(spots) == 0 {
		return
	}
	p := spots[r.Intn(len(spots))]
	bad := []rune{'@', '$', '#', '&', '~', '^', '!', '`', '{', '}', ';', '?', '%', '_', '|', '<', '*', 0x00e9, 0x1F600}[r.Intn(19)]
	// more than 16 tokens usually follow the injection point in these documents
	src := string(runes[:p]) + string(bad) + string(runes[p:])
	line, colm := 1, 1
	for _, ch := range runes[:p] {
		if ch == '\n' {
			line++
			colm = 1
		} else {
			colm++
		}
	}
	cs := map[string]any{"input": clip(src, 800), "family": "injection", "injected": string(bad), "at_line": line, "at_position": colm}
	o := Parse(src)
	if !o.Panicked {
		c.Violation("injection/accepted", fmt.Sprintf("a document with the illegal character %q at line %d, position %d was accepted", bad, line, colm), cs)
		return
	}
	if sig, msg := ClassifyOutcome(src, o); sig != "" {
		cs["panic"] = clip(o.Text, 300)
		c.Violation(sig, msg, cs)
		CheckLeak(c, src, cs)
		return
	}
	m := diagRe.FindStringSubmatch(o.Text)
	if m == nil {
		// a differently worded diagnostic: compare the location only
		lm := looseDiagRe.FindStringSubmatch(o.Text)
		m = []string{"", "error", lm[1], lm[2]}
	}
	gl, _ := strconv.Atoi(m[2])
	gc, _ := strconv.Atoi(m[3])
	if m[1] != "error" || gl != line || gc != colm {
		cs["panic"] = clip(o.Text, 300)
		c.Violation("injection/wrong-location", fmt.Sprintf("illegal character %q injected at line %d, position %d; the diagnostic reports a token of type %s at line %d, position %d", bad, line, colm, m[1], gl, gc), cs)
		return
	}
	if !CheckLeak(c, src, cs) {
		return
	}
	tokensAfter := len(strings.Fields(string(runes[p:])))
	if tokensAfter > 16 {
		c.Cover("injection.more-than-16-tokens-after-the-error")
	}
	c.Cover("injection")
	c.Distinct(core.Mix(core.HashStr(src)))
	if c.WantSample("injection") && len(src) < 300 {
		c.Sample("injection", cs)
	}
}

// RunC12Random: random bytes / token soups / mutated valid documents.
func RunC12Random(c *core.Ctx, family string) {
	r := c.Rng
	var src, fam string
	switch family {
	case "bytes":
		src, fam = randomBytes(r), "random bytes"
	case "tokens":
		src, fam = randomTokens(r), "valid tokens in random order"
	default:
		doc := validDoc(r)
		var how string
		src, how = mutateDoc(r, doc)
		if r.Chance(1, 4) {
			src, _ = mutateDoc(r, src)
			how += "+1"
		}
		fam = "mutated valid document (" + how + ")"
	}
	if !utf8.ValidString(src) {
		c.Cover("input.invalid-utf8")
	}
	if CheckInput(c, src, fam) {
		c.Distinct(core.HashStr(src))
		if c.WantSample(family) && len(src) < 200 {
			c.Sample(family, map[string]any{"input": src, "family": fam})
		}
	}
}

// RunC12Mismatch: every item kind against every type context, with 0..40
// items (token streams shorter and longer than the scanner queue) and trailing text.
func RunC12Mismatch(c *core.Ctx, idx int) {
	r := c.Rng
	contexts := []string{"Array", "Catalog", "List", "Map", "Queue", "Set", "Stack", "Bogus", ""}
	ctx := contexts[idx%len(contexts)]
	assoc := (idx/len(contexts))%2 == 0
	n := []int{1, 2, 3, 9, 17, 20, 40}[(idx/(2*len(contexts)))%7]
	multiline := (idx/(14*len(contexts)))%2 == 0
	var parts []string
	for i := 0; i < n; i++ {
		if assoc {
			parts = append(parts, fmt.Sprintf("%d: %d", i, i))
		} else {
			parts = append(parts, strconv.Itoa(i%5))
		}
	}
	var body string
	if multiline {
		body = "[\n    " + strings.Join(parts, "\n    ") + "\n]"
	} else {
		body = "[" + strings.Join(parts, ", ") + "]"
	}
	src := body
	if ctx != "" {
		src += "(" + ctx + ")"
	}
	// trailing material after the (possible) error point
	if r.Bool() {
		tail := make([]string, r.Range(0, 40))
		for i := range tail {
			tail[i] = "1"
		}
		src += ", " + strings.Join(tail, ", ")
	}
	fam := fmt.Sprintf("items(assoc=%v,n=%d,multiline=%v) in context %q", assoc, n, multiline, ctx)
	if CheckInput(c, src, fam) {
		c.Cover("mismatch")
		c.Distinct(core.HashStr(src))
		if c.WantSample("mismatch") && len(src) < 120 {
			c.Sample("mismatch", map[string]any{"input": src})
		}
	}
}

func C12MismatchCases() int { return 9 * 2 * 7 * 2 }

// ---- reproducers ----

func reproClass(src, wantSigPart string) (bool, string) {
	o := Parse(src)
	sig, msg := ClassifyOutcome(src, o)
	if sig != "" {
		return true, fmt.Sprintf("ParseSource(%q): %s", src, msg)
	}
	return false, fmt.Sprintf("ParseSource(%q) ends in a value or a located diagnostic", src)
}

func ReproNilToken() (bool, string)      { return reproClass("[(", "nil") }
func ReproTypeAssertion() (bool, string) { return reproClass("[1, 2](Catalog)", "assert") }

func ReproScannerLeak() (bool, string) {
	src := "[1, 2](Set)" + strings.Repeat(", 1", 30)
	before, _ := scannerGoroutines()
	Parse(src)
	for i := 0; i < 200; i++ {
		total, _ := scannerGoroutines()
		if total <= before {
			return false, "no scanner goroutine is left behind"
		}
		time.Sleep(time.Millisecond)
	}
	total, blocked := scannerGoroutines()
	return true, fmt.Sprintf("after ParseSource of a document with 30 tokens behind the syntax error, %d scanner goroutine(s) remain (%d parked in a channel send)", total-before, blocked)
}

// ReproQueueLiteral runs in a child: a hang is reported by the orchestrator's timeout.
func ReproQueueLiteral() (bool, string) {
	parts := make([]string, 17)
	for i := range parts {
		parts[i] = strconv.Itoa(i)
	}
	src := "[" + strings.Join(parts, ", ") + "](Queue)"
	done := make(chan Outcome, 1)
	go func() { done <- Parse(src) }()
	select {
	case o := <-done:
		if o.Panicked {
			return true, "a 17-item Queue literal is rejected: " + clip(o.Text, 100)
		}
		return false, "a 17-item Queue literal parses"
	case <-time.After(5 * time.Second):
		total, blocked := scannerGoroutines()
		return true, fmt.Sprintf("ParseSource of a 17-item Queue literal has not returned after 5 s (scanner goroutines: %d, blocked: %d)", total, blocked)
	}
}

func ReproConversionErrors() (bool, string) {
	for _, src := range []string{"[99999999999999999999](List)", "[1.0E+999](List)", "[\"\\q\"](List)"} {
		o := Parse(src)
		if !o.Panicked {
			got, _ := Canon(o.Value)
			return true, fmt.Sprintf("ParseSource(%q) returned %s", src, got)
		}
	}
	o := Parse("['\\xff'](List)")
	if got, _ := Canon(o.Value); got != "List[rune:255]" {
		return true, "ParseSource(\"['\\xff'](List)\") returned " + got
	}
	return false, "unrepresentable literals are rejected, '\\xff' is rune 255"
}

// ---- coverage-guided tier (go test -fuzz), see harness/fuzz ----

// FuzzSeeds is the seed corpus: valid documents of every shape.
func FuzzSeeds() []string {
	r := core.NewRng(20261003)
	out := []string{"[ ](List)", "[:](Map)", "[1, 2](Set)", "[\n    \"a\": 1\n    \"b\": [true](Stack)\n](Catalog)\n",
		"[(1.0+2.0i), 0xff, 'x', \"s\", nil, -1.5E+10](Array)", "[1, 2](Catalog)", "[(", "[1, 2](Set), 1, 1, 1, 1, 1, 1, 1, 1, 1, 1, 1, 1, 1, 1, 1, 1, 1, 1"}
	for i := 0; i < 40; i++ {
		s, _ := Derive(r, r.Intn(3))
		out = append(out, s)
	}
	return out
}

// LeakAfterParse is the leak monitor without a Ctx (used by the fuzz target):
// "" when no scanner goroutine is left, otherwise a description.
func LeakAfterParse() string {
	for attempt := 0; attempt < 300; attempt++ {
		total, blocked := scannerGoroutines()
		if total == 0 {
			return ""
		}
		if blocked == total && attempt >= 3 {
			return fmt.Sprintf("%d scanner goroutine(s) parked in a channel send after ParseSource ended", blocked)
		}
		if attempt < 20 {
			runtime.Gosched()
		} else {
			time.Sleep(200 * time.Microsecond)
		}
	}
	return ""
}

var failingInputRe = regexp.MustCompile(`Failing input written to (\S+)`)
var execsRe = regexp.MustCompile(`execs: (\d+)`)
var interestingRe = regexp.MustCompile(`new interesting: (\d+)`)

// RunC12Fuzz runs Go's coverage-guided fuzzer on ParseSource for a fixed
// number of executions and converts a crasher into a violation.
func RunC12Fuzz(c *core.Ctx) {
	root := core.Root()
	execs := core.Tiered(c.Tier, 20000, 1000000)
	cache := filepath.Join(root, ".build", "fuzzcache")
	os.MkdirAll(cache, 0o755)
	pkg := filepath.Join(root, "harness")
	cmd := exec.Command("go", "test", "-tags", "verif", "-run", "^$", "-fuzz", "^FuzzParse$", fmt.Sprintf("-fuzztime=%dx", execs),
		"./fuzz/", "-test.fuzzcachedir="+cache)
	cmd.Dir = pkg
	out, err := cmd.CombinedOutput()
	s := string(out)
	if m := failingInputRe.FindStringSubmatch(s); m != nil {
		path := filepath.Join(pkg, "fuzz", m[1])
		b, _ := os.ReadFile(path)
		os.Remove(path)
		input := ""
		for _, line := range strings.Split(string(b), "\n") {
			if strings.HasPrefix(line, "string(") {
				if v, e := strconv.Unquote(strings.TrimSuffix(strings.TrimPrefix(line, "string("), ")")); e == nil {
					input = v
				}
			}
		}
		o := Parse(input)
		sig, msg := ClassifyOutcome(input, o)
		if sig == "" {
			if leak := LeakAfterParse(); leak != "" {
				sig, msg = "leak/scanner-goroutine-blocked", leak
			} else {
				sig, msg = "fuzz/crasher-not-reproduced", "the fuzzer reported a failing input that the classifier accepts when re-run: "+clip(s, 400)
			}
		}
		c.Violation(sig+"/found-by-fuzzer", msg, map[string]any{"input": clip(input, 800), "family": "coverage-guided fuzzing"})
		return
	}
	if err != nil && !strings.Contains(s, "PASS") {
		c.Inconclusive("the coverage-guided fuzzer did not run to completion: " + clip(strings.TrimSpace(s), 300))
		return
	}
	last := 0
	for _, m := range execsRe.FindAllStringSubmatch(s, -1) {
		last, _ = strconv.Atoi(m[1])
	}
	interesting := 0
	for _, m := range interestingRe.FindAllStringSubmatch(s, -1) {
		interesting, _ = strconv.Atoi(m[1])
	}
	if last == 0 {
		last = execs
	}
	c.CoverN("fuzz.executions", last)
	c.CoverN("fuzz.new-interesting-inputs", interesting)
	c.Distinct(core.Mix(0xf022, uint64(last), uint64(interesting)))
	c.Sample("fuzz", map[string]any{"executions": last, "new_interesting_inputs": interesting})
}

// RunC12Deep: well-formed documents nested far deeper than any limit of the
// library (collator: 16, formatter: 8).  Two members that differ only at the
// bottom of a long chain of single-member collections, under every kind of
// context: a Set has to rank them, a Catalog keys them, the others just hold
// them.  Whatever the library cannot do with such a document must be said in
// a located diagnostic.
func RunC12Deep(c *core.Ctx) {
	r := c.Rng
	depth := []int{1, 2, 8, 15, 16, 17, 18, 24, 33, 40}[r.Intn(10)]
	kinds := []string{"Array", "List", "Set", "Stack", "Queue"}
	chain := func(leaf string) string {
		s := leaf
		for d := 0; d < depth; d++ {
			k := kinds[r.Intn(len(kinds))]
			if r.Chance(1, 5) {
				s = "[\"k\": " + s + "](" + []string{"Catalog", "Map"}[r.Intn(2)] + ")"
			} else {
				s = "[" + s + "](" + k + ")"
			}
		}
		return s
	}
	// the same shape twice: fork the generator so that both chains draw the same kinds
	r1 := *r
	x := chain("1")
	*r = r1
	y := chain("2")
	var src string
	top := []string{"Array", "List", "Set", "Stack", "Queue", "Catalog", "Map"}[r.Intn(7)]
	switch top {
	case "Catalog", "Map":
		src = "[\"a\": " + x + ", \"b\": " + y + "](" + top + ")"
	default:
		src = "[" + x + ", " + y + "](" + top + ")"
	}
	if r.Bool() {
		src += "\n"
	}
	if CheckInput(c, src, fmt.Sprintf("two chains nested %d deep in a %s", depth, top)) {
		c.Cover(fmt.Sprintf("deep.%s", top))
		c.Distinct(core.HashStr(src))
	}
}

// ReproDeepSet: a Set literal with two members nested 17 deep.
func ReproDeepSet() (bool, string) {
	x := strings.Repeat("[", 17) + "1" + strings.Repeat("](Array)", 17)
	y := strings.Repeat("[", 17) + "2" + strings.Repeat("](Array)", 17)
	src := "[" + x + ", " + y + "](Set)"
	if sig, msg := ClassifyOutcome(src, Parse(src)); sig != "" {
		return true, "a Set literal with two members nested 17 deep: [" + sig + "] " + clip(msg, 200)
	}
	return false, "a Set literal with members nested 17 deep ends in a value or a located diagnostic"
}
