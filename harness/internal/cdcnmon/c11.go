package cdcnmon

import (
	"crypto/sha256"
	"fmt"
	"math"
	"os"
	"path/filepath"
	"runtime"
	"sort"
	"strconv"
	"strings"
	"sync/atomic"
	"time"
	"unicode/utf8"

	cdc "github.com/craterdog/go-collection-framework/v4/cdcn"
	col "github.com/craterdog/go-collection-framework/v4/collection"

	"verif/harness/internal/core"
)

// ---- C11: every sentence of the grammar is accepted with its meaning ----

// GrammarHash is the SHA-256 of the rule section of Syntax.cdsn that the
// derivation generator below encodes.  A changed grammar makes the check
// inconclusive instead of wrong.
const GrammarHash = "f0b0f8dab262650d78f12e49612fd1df070319ad7ee252fb76b70db7bea7a115"

func grammarRules() (string, error) {
	repo := os.Getenv("VERIF_REPO") // set by ./vr from the replace directive of harness/go.mod
	if repo == "" {
		repo = "/repo"
	}
	b, err := os.ReadFile(filepath.Join(repo, "v4/cdcn", "Syntax.cdsn"))
	if err != nil {
		return "", err
	}
	s := string(b)
	i := strings.Index(s, "AST:")
	if i < 0 {
		return "", fmt.Errorf("no AST rule")
	}
	return fmt.Sprintf("%x", sha256.Sum256([]byte(s[i:]))), nil
}

// GrammarUnchanged reports whether Syntax.cdsn still has the encoded rules.
func GrammarUnchanged() (bool, string) {
	h, err := grammarRules()
	if err != nil {
		return false, err.Error()
	}
	return h == GrammarHash, h
}

// lit is a literal with its denotation in Canon's format ("" = must be rejected).
type lit struct {
	text  string
	canon string
	kind  string // boolean, complex, float, hexadecimal, integer, nil, rune, string
	key   any    // the Go value (for key equality and set ordering)
}

func f64canon(f float64) string { return fmt.Sprintf("f64:%016x", math.Float64bits(f)) }

func mkFloatText(r *core.Rng) string {
	sign := []string{"", "", "+", "-"}[r.Intn(4)]
	whole := []string{"0", "1", "7", "10", "42", "100", "123456789", "99999999999999999999", "17976931348623157", "9007199254740993"}[r.Intn(10)]
	frac := []string{"0", "5", "25", "125", "000", "10", "999999999999999999", "3333333333333333", "0000000000000000000001"}[r.Intn(9)]
	exp := ""
	if r.Chance(1, 2) {
		exp = []string{"e", "E"}[r.Intn(2)] + []string{"+", "-"}[r.Intn(2)] + []string{"1", "2", "9", "10", "22", "99", "100", "300", "307", "308", "323", "324"}[r.Intn(12)]
	}
	return sign + whole + "." + frac + exp
}

func floatLit(text string) lit {
	f, err := strconv.ParseFloat(text, 64)
	if err != nil {
		return lit{text: text, kind: "float"} // out of range: must be rejected
	}
	return lit{text: text, canon: f64canon(f), kind: "float", key: f}
}

func genLit(r *core.Rng, kinds string) lit {
	pick := strings.Fields(kinds)
	switch pick[r.Intn(len(pick))] {
	case "boolean":
		b := r.Bool()
		return lit{strconv.FormatBool(b), fmt.Sprintf("bool:%v", b), "boolean", b}
	case "nil":
		return lit{"nil", "nil", "nil", nil}
	case "integer":
		var t string
		switch r.Intn(8) {
		case 0:
			t = "0"
		case 1:
			t = []string{"9223372036854775807", "-9223372036854775808", "+9223372036854775807", "-9223372036854775807"}[r.Intn(4)]
		case 2:
			t = []string{"", "+", "-"}[r.Intn(3)] + strconv.Itoa(r.Range(1, 9))
		default:
			t = []string{"", "", "+", "-"}[r.Intn(4)] + strconv.FormatUint(1+r.Uint64()%uint64([]int{10, 1000, 1000000000, 9223372036854775807}[r.Intn(4)]), 10)
		}
		v, err := strconv.ParseInt(t, 10, 64)
		if err != nil {
			return lit{text: t, kind: "integer"}
		}
		return lit{t, fmt.Sprintf("i64:%d", v), "integer", v}
	case "hexadecimal":
		digits := []string{"0", "1", "a", "ff", "10", "deadbeef", "ffffffffffffffff", "8000000000000000", "0000", "00ff", "7fffffffffffffff"}[r.Intn(11)]
		if r.Chance(1, 3) {
			digits = strconv.FormatUint(r.Uint64()>>uint(r.Intn(64)), 16)
		}
		v, err := strconv.ParseUint(digits, 16, 64)
		if err != nil {
			return lit{text: "0x" + digits, kind: "hexadecimal"}
		}
		return lit{"0x" + digits, fmt.Sprintf("u64:%d", v), "hexadecimal", v}
	case "float":
		for {
			l := floatLit(mkFloatText(r))
			if l.canon != "" {
				return l
			}
		}
	case "complex":
		for {
			a, b := mkFloatText(r), mkFloatText(r)
			// the imaginary part carries exactly one sign
			b = strings.TrimLeft(b, "+-")
			sign := []string{"+", "-"}[r.Intn(2)]
			fa, e1 := strconv.ParseFloat(a, 64)
			fb, e2 := strconv.ParseFloat(sign+b, 64)
			if e1 != nil || e2 != nil {
				continue
			}
			t := "(" + a + sign + b + "i)"
			return lit{t, fmt.Sprintf("c128:%016x,%016x", math.Float64bits(fa), math.Float64bits(fb)), "complex", complex(fa, fb)}
		}
	case "rune":
		bodies := []string{"a", "Z", "0", " ", "é", "☺", "\U0001F600", "[", "\"", "\\n", "\\t", "\\\\", "\\'", "\\x41", "\\x7f", "\\u00e9", "\\u263a", "\\U0001f600", "\\a", "\\b", "\\f", "\\r", "\\v", "\\x00", "~", "ÿ", "\\xe9", "\\xff", "\\x80"}
		body := bodies[r.Intn(len(bodies))]
		v, _, _, err := strconv.UnquoteChar(body, '\'')
		if err != nil {
			return lit{text: "'" + body + "'", kind: "rune"}
		}
		return lit{"'" + body + "'", fmt.Sprintf("rune:%d", v), "rune", v}
	default: // string
		pieces := []string{"", "a", "Hello World!", "é", "日本", "\U0001F600", "'", " ", "[1, 2](List)", "\\n", "\\t", "\\\"", "\\\\", "\\x41", "\\xff", "\\u00e9", "\\U0001f600", "\\a\\b\\f\\r\\v", "nil", "0x", ":", ","}
		n := r.Intn(4)
		var body strings.Builder
		for i := 0; i < n; i++ {
			body.WriteString(pieces[r.Intn(len(pieces))])
		}
		if r.Chance(1, 12) {
			body.WriteString(strings.Repeat("x", 60))
		}
		t := "\"" + body.String() + "\""
		v, err := strconv.Unquote(t)
		if err != nil {
			return lit{text: t, kind: "string"}
		}
		return lit{t, fmt.Sprintf("str:%q", v), "string", v}
	}
}

const allLits = "boolean complex float hexadecimal integer nil rune string"

type deriver struct {
	r      *core.Rng
	tokens int
}

func (d *deriver) sp() string {
	switch d.r.Intn(12) {
	case 0:
		return " "
	case 1:
		return "  "
	}
	return ""
}

func litLess(a, b lit) bool {
	switch x := a.key.(type) {
	case bool:
		return !x && b.key.(bool)
	case int64:
		return x < b.key.(int64)
	case uint64:
		return x < b.key.(uint64)
	case float64:
		return x < b.key.(float64)
	case rune:
		return x < b.key.(rune)
	case string:
		return x < b.key.(string)
	}
	return false
}

// collection derives one Collection at the given indentation level and
// returns its text and denotation (in Canon's format).
func (d *deriver) collection(depth, indent int) (string, string) {
	r := d.r
	kind := Kinds[r.Intn(len(Kinds))]
	assoc := kind == "Catalog" || kind == "Map"
	n := 0
	switch r.Intn(5) {
	case 0:
		n = 0
	case 1:
		n = 1
	default:
		n = r.Range(2, 6)
	}
	if depth <= 0 && r.Chance(1, 8) {
		n = r.Range(7, 40) // longer than the scanner queue
	}
	if kind == "Queue" && n > 16 {
		n = 16
	}
	multiline := n > 0 && r.Bool()
	pad := strings.Repeat("    ", indent+1)
	if r.Chance(1, 6) {
		pad = strings.Repeat(" ", r.Intn(9)) // any indentation is just spaces
	}
	setKind := []string{"boolean", "integer", "hexadecimal", "float", "rune", "string"}[r.Intn(6)]
	value := func() (string, string, lit) {
		if depth > 0 && r.Chance(1, 3) && kind != "Set" {
			t, c := d.collection(depth-1, indent+1)
			return t, c, lit{}
		}
		kinds := allLits
		if kind == "Set" {
			kinds = setKind
		}
		l := genLit(r, kinds)
		d.tokens++
		return l.text, l.canon, l
	}
	var texts []string
	var canons []string
	var lits []lit
	var keys []lit
	for i := 0; i < n; i++ {
		if assoc {
			k := genLit(r, allLits)
			vt, vc, _ := value()
			texts = append(texts, k.text+d.sp()+":"+[]string{" ", "", "  "}[r.Intn(3)]+vt)
			keys = append(keys, k)
			canons = append(canons, vc)
			d.tokens += 2
		} else {
			vt, vc, l := value()
			texts = append(texts, vt)
			canons = append(canons, vc)
			lits = append(lits, l)
		}
	}
	// ---- text ----
	var sb strings.Builder
	sb.WriteString("[")
	switch {
	case n == 0 && assoc && r.Chance(3, 4):
		sb.WriteString(":")
	case n == 0:
		sb.WriteString([]string{" ", " ", "  "}[r.Intn(3)])
	case multiline:
		for _, t := range texts {
			sb.WriteString("\n" + pad + t + d.sp())
		}
		sb.WriteString("\n" + strings.Repeat("    ", indent))
	default:
		sb.WriteString(d.sp() + strings.Join(texts, d.sp()+","+[]string{" ", "", "  "}[r.Intn(3)]) + d.sp())
	}
	sb.WriteString("]" + d.sp() + "(" + d.sp() + kind + d.sp() + ")")
	d.tokens += 5
	// ---- denotation ----
	var canon string
	switch kind {
	case "Catalog", "Map":
		type ent struct{ k, v string }
		var ents []ent
		var ekeys []any
		for i := range keys {
			found := -1
			for j, ek := range ekeys {
				if ek == keys[i].key {
					found = j
				}
			}
			if found >= 0 {
				ents[found].v = canons[i] // first position, last value
				continue
			}
			ekeys = append(ekeys, keys[i].key)
			ents = append(ents, ent{keys[i].canon, canons[i]})
		}
		parts := make([]string, len(ents))
		for i, e := range ents {
			parts[i] = e.k + "=>" + e.v
		}
		if kind == "Map" {
			sort.Strings(parts)
			canon = "Map{" + strings.Join(parts, " ") + "}"
		} else {
			canon = "Catalog{" + strings.Join(parts, " ") + "}"
		}
	case "Set":
		// homogeneous literals: sorted and de-duplicated by the natural order
		idx := make([]int, len(lits))
		for i := range idx {
			idx[i] = i
		}
		sort.SliceStable(idx, func(a, b int) bool { return litLess(lits[idx[a]], lits[idx[b]]) })
		var out []string
		for k, i := range idx {
			if k > 0 && !litLess(lits[idx[k-1]], lits[i]) {
				continue // equal to its predecessor (e.g. 0.0 and -0.0 rank equal): the first one added stays
			}
			// among equal ones the first ADDED is retained
			first := i
			for _, j := range idx {
				if !litLess(lits[j], lits[i]) && !litLess(lits[i], lits[j]) && j < first {
					first = j
				}
			}
			out = append(out, canons[first])
		}
		canon = "Set[" + strings.Join(out, " ") + "]"
	default:
		canon = kind + "[" + strings.Join(canons, " ") + "]"
	}
	return sb.String(), canon
}

// Derive produces a sentence of the grammar (AST) and its denotation.
func Derive(r *core.Rng, depth int) (string, string) {
	d := &deriver{r: r}
	t, c := d.collection(depth, 0)
	t += strings.Repeat("\n", []int{0, 1, 1, 2, 3}[r.Intn(5)])
	return t, c
}

// ---- schedule perturbation through the queue hooks ----

var jitterOn atomic.Bool
var jitterState atomic.Uint64

func jitterHook(kind uint8, q any) {
	if !jitterOn.Load() {
		return
	}
	x := jitterState.Add(0x9e3779b97f4a7c15)
	x ^= x >> 29
	x *= 0xbf58476d1ce4e5b9
	x ^= x >> 32
	switch x % 16 {
	case 0, 1, 2, 3:
		runtime.Gosched()
	case 4:
		time.Sleep(time.Duration(x>>8%30) * time.Microsecond)
	case 5:
		for i := uint64(0); i < x>>8%2000; i++ {
			_ = i
		}
	}
}

var hookInstalled atomic.Bool

func EnsureJitterHook() {
	if hookInstalled.CompareAndSwap(false, true) {
		col.VerifSetHook(jitterHook)
	}
}

// CheckSentence parses a sentence `times` times under perturbed schedules and
// compares every result with the denotation.
func CheckSentence(c *core.Ctx, src, want string, times int, cs map[string]any) bool {
	EnsureJitterHook()
	for k := 0; k < times; k++ {
		jitterOn.Store(k > 0)
		jitterState.Store(c.Rng.Uint64())
		o := Parse(src)
		jitterOn.Store(false)
		if want == "" {
			// the sentence contains a literal that cannot be represented: it must be rejected
			if !o.Panicked {
				got, _ := Canon(o.Value)
				cs["parsed"] = clip(got, 600)
				c.Violation("grammar/unrepresentable-literal-accepted", "a literal that has no exact representation was accepted and silently replaced by another value", cs)
				return false
			}
			if sig, msg := ClassifyOutcome(src, o); sig != "" {
				c.Violation("grammar/"+sig, msg, cs)
				return false
			}
			continue
		}
		if o.Panicked {
			cs["panic"] = clip(strings.SplitN(o.Text, "\n", 2)[0], 300)
			sig := "grammar/sentence-rejected"
			if k > 0 {
				sig = "grammar/schedule-dependent"
			}
			c.Violation(sig, fmt.Sprintf("a sentence of the grammar was rejected (parse #%d)", k+1), cs)
			return false
		}
		got, _ := Canon(o.Value)
		if got != want {
			cs["parsed"] = clip(got, 800)
			cs["expected"] = clip(want, 800)
			sig := "grammar/wrong-meaning"
			if k > 0 {
				sig = "grammar/schedule-dependent"
			}
			c.Violation(sig, fmt.Sprintf("the parsed collection differs from the denotation of the sentence (parse #%d)", k+1), cs)
			return false
		}
	}
	return true
}

var gomaxprocsCycle = []int{2, 16, 4, 1, 8, 16}

// RunC11Random: a random derivation.
func RunC11Random(c *core.Ctx, idx int) {
	if idx%200 == 0 {
		runtime.GOMAXPROCS(gomaxprocsCycle[(idx/200)%len(gomaxprocsCycle)])
	}
	r := c.Rng
	d := &deriver{r: r}
	depth := r.Intn(4)
	t, want := d.collection(depth, 0)
	t += strings.Repeat("\n", []int{0, 1, 1, 2, 3}[r.Intn(5)])
	cs := map[string]any{"sentence": clip(t, 1200), "tokens": d.tokens}
	if !CheckSentence(c, t, want, core.Tiered(c.Tier, 4, 12), cs) {
		return
	}
	if d.tokens > 16 {
		c.Cover("sentences.longer-than-the-token-queue")
	} else {
		c.Cover("sentences.shorter-than-the-token-queue")
	}
	c.Cover("sentences")
	c.Distinct(core.HashStr(t))
	if c.WantSample("derivation") && len(t) < 300 {
		c.Sample("derivation", map[string]any{"sentence": t, "denotation": want})
	}
}

// ---- boundary literals that must be rejected ----

var unrepresentable = []string{
	"99999999999999999999", "9223372036854775808", "-9223372036854775809", "+18446744073709551616",
	"0x10000000000000000", "0xfffffffffffffffff", "1.0E+999", "-1.0e+400", "1.0E+309", "(1.0E+999+1.0i)", "(1.0+1.0E+999i)",
	"\"\\q\"", "\"a\\zb\"", "\"\\x4\"", "\"\\u12\"", "\"\\ud800\"", "\"\\U00110000\"", "'\\q'", "'\\ud800'", "'\\U00110000'", "'\\x4'",
}

func C11RejectCases() int { return len(unrepresentable) * 7 * 3 }

func RunC11Reject(c *core.Ctx, idx int) {
	l := unrepresentable[idx%len(unrepresentable)]
	kind := Kinds[(idx/len(unrepresentable))%7]
	shape := idx / (len(unrepresentable) * 7)
	var src string
	assoc := kind == "Catalog" || kind == "Map"
	switch {
	case assoc && shape == 0:
		src = "[" + l + ": 1](" + kind + ")"
	case assoc && shape == 1:
		src = "[1: " + l + "](" + kind + ")"
	case assoc:
		src = "[\n    1: 2\n    3: " + l + "\n](" + kind + ")\n"
	case shape == 0:
		src = "[" + l + "](" + kind + ")"
	case shape == 1:
		src = "[1, " + l + ", 3](" + kind + ")"
	default:
		src = "[\n    1\n    " + l + "\n](" + kind + ")\n"
	}
	cs := map[string]any{"sentence": src, "literal": l}
	if CheckSentence(c, src, "", 1, cs) {
		c.Cover("unrepresentable-literals-rejected")
		c.Distinct(core.HashStr(src))
		if c.WantSample("rejected-literal") {
			c.Sample("rejected-literal", cs)
		}
	}
}

// ---- exhaustive small derivations ----

var exLits = []lit{
	{"true", "bool:true", "boolean", true}, {"(1.0-2.5i)", fmt.Sprintf("c128:%016x,%016x", math.Float64bits(1), math.Float64bits(-2.5)), "complex", complex(1, -2.5)},
	{"-0.5E+1", f64canon(-5), "float", -5.0}, {"0xff", "u64:255", "hexadecimal", uint64(255)}, {"+7", "i64:7", "integer", int64(7)}, {"nil", "nil", "nil", nil},
	{"'\\n'", "rune:10", "rune", rune(10)}, {"\"a\\\"b\"", "str:\"a\\\"b\"", "string", "a\"b"},
}

type exItem struct{ text, canon string }

func exItems() []exItem {
	var out []exItem
	for _, l := range exLits {
		out = append(out, exItem{l.text, l.canon})
	}
	for _, k := range Kinds {
		assoc := k == "Catalog" || k == "Map"
		if assoc {
			out = append(out, exItem{"[:](" + k + ")", k + "{}"}, exItem{"[1: 2](" + k + ")", k + "{i64:1=>i64:2}"},
				exItem{"[\n        1: 2\n        1: 3\n    ](" + k + ")", k + "{i64:1=>i64:3}"})
		} else {
			out = append(out, exItem{"[ ](" + k + ")", k + "[]"}, exItem{"[1](" + k + ")", k + "[i64:1]"},
				exItem{"[\n        1\n        2\n    ](" + k + ")", k + "[i64:1 i64:2]"})
		}
	}
	return out
}

var exAll = exItems()
var exKeys = []lit{exLits[0], exLits[4], exLits[6], exLits[7]}

// C11ExhaustiveCases: sequences: 5 kinds x 2 layouts x (1 + 29 + 29*29); associations: 2 kinds x 2 layouts x (1 + 116 + 116*116)
func C11ExhaustiveCases() int {
	n := len(exAll)
	a := len(exKeys) * n
	return 5*2*(1+n+n*n) + 2*2*(1+a+a*a)
}

func RunC11Exhaustive(c *core.Ctx, idx int) {
	n := len(exAll)
	per := 1 + n + n*n
	var kind string
	var multiline bool
	var texts, canons []string
	var keyLits []lit
	seqKinds := []string{"Array", "List", "Queue", "Set", "Stack"}
	if idx < 5*2*per {
		kind = seqKinds[idx/(2*per)]
		multiline = (idx/per)%2 == 1
		k := idx % per
		var sel []int
		switch {
		case k == 0:
		case k <= n:
			sel = []int{k - 1}
		default:
			k -= 1 + n
			sel = []int{k / n, k % n}
		}
		for _, s := range sel {
			texts = append(texts, exAll[s].text)
			canons = append(canons, exAll[s].canon)
		}
	} else {
		idx -= 5 * 2 * per
		a := len(exKeys) * n
		perA := 1 + a + a*a
		kind = []string{"Catalog", "Map"}[idx/(2*perA)]
		multiline = (idx/perA)%2 == 1
		k := idx % perA
		var sel []int
		switch {
		case k == 0:
		case k <= a:
			sel = []int{k - 1}
		default:
			k -= 1 + a
			sel = []int{k / a, k % a}
		}
		for _, s := range sel {
			key := exKeys[s/n]
			it := exAll[s%n]
			texts = append(texts, key.text+": "+it.text)
			canons = append(canons, it.canon)
			keyLits = append(keyLits, key)
		}
	}
	var src string
	assoc := kind == "Catalog" || kind == "Map"
	switch {
	case len(texts) == 0 && assoc:
		src = "[:](" + kind + ")"
	case len(texts) == 0:
		src = "[ ](" + kind + ")"
	case multiline:
		src = "[\n    " + strings.Join(texts, "\n    ") + "\n](" + kind + ")\n"
	default:
		src = "[" + strings.Join(texts, ", ") + "](" + kind + ")"
	}
	// denotation
	var want string
	switch {
	case assoc:
		parts := []string{}
		if len(keyLits) == 2 && keyLits[0].key == keyLits[1].key {
			parts = []string{keyLits[0].canon + "=>" + canons[1]}
		} else {
			for i := range keyLits {
				parts = append(parts, keyLits[i].canon+"=>"+canons[i])
			}
		}
		if kind == "Map" {
			sort.Strings(parts)
		}
		want = kind + "{" + strings.Join(parts, " ") + "}"
	case kind == "Set":
		// mixed items: the order is the collator's; only membership is fixed here
		want = ""
	default:
		want = kind + "[" + strings.Join(canons, " ") + "]"
	}
	cs := map[string]any{"sentence": src}
	if kind == "Set" {
		o := Parse(src)
		if o.Panicked {
			c.Violation("grammar/sentence-rejected", "a sentence of the grammar was rejected: "+clip(strings.SplitN(o.Text, "\n", 2)[0], 200), cs)
			return
		}
		got, _ := Canon(o.Value)
		exp := map[string]bool{}
		for _, cn := range canons {
			exp[cn] = true
		}
		s, ok := o.Value.(col.SetLike[any])
		if !ok || s.GetSize() != len(exp) {
			c.Violation("grammar/wrong-meaning", "Set literal: parsed "+clip(got, 300), cs)
			return
		}
		for _, m := range s.AsArray() {
			mc, _ := Canon(m)
			if !exp[mc] {
				c.Violation("grammar/wrong-meaning", "Set literal: parsed "+clip(got, 300), cs)
				return
			}
		}
	} else if !CheckSentence(c, src, want, 2, cs) {
		return
	}
	c.Cover("exhaustive")
	c.Distinct(core.HashStr(src))
	if c.WantSample("exhaustive") && strings.Count(src, "\n") < 4 {
		c.Sample("exhaustive", map[string]any{"sentence": src, "denotation": want})
	}
}

// RunC11Race: derivations parsed in the race-detector build, without any
// harness hook (a shared hook state would add happens-before edges).
func RunC11Race(c *core.Ctx) {
	r := c.Rng
	d := &deriver{r: r}
	t, want := d.collection(r.Intn(3), 0)
	cs := map[string]any{"sentence": clip(t, 800)}
	for k := 0; k < 3; k++ {
		o := Parse(t)
		if o.Panicked {
			c.Violation("grammar/sentence-rejected", "rejected under the race detector build: "+clip(o.Text, 200), cs)
			return
		}
		if got, _ := Canon(o.Value); got != want {
			c.Violation("grammar/wrong-meaning", "wrong meaning under the race detector build", cs)
			return
		}
	}
	// and a failing parse (the scanner is still busy when the parser gives up)
	Parse(t + ", 1, 2, 3, 4, 5, 6, 7, 8, 9, 10, 11, 12, 13, 14, 15, 16, 17, 18, 19, 20")
	c.Cover("race-build-parses")
	c.Distinct(core.HashStr("race" + t))
}

// ParseWith parses on a given (reused) notation.
func ParseWith(n col.NotationLike, src string) (o Outcome) {
	defer func() {
		if e := recover(); e != nil {
			o.Panicked = true
			o.Payload = e
			o.Text = fmt.Sprint(e)
		}
	}()
	o.Value = n.ParseSource(src)
	return
}

// truncations of valid documents that the PARSER (not the scanner) rejects
func parserRejected(r *core.Rng) string {
	doc, _ := Derive(r, r.Intn(3))
	runes := []rune(doc)
	switch r.Intn(4) {
	case 0:
		return "[\n    1\n    2\n    3\n"
	case 1:
		if len(runes) > 2 {
			return string(runes[:len(runes)/2])
		}
		return "["
	case 2:
		return doc + ", 1, 2, 3, 4, 5, 6, 7, 8, 9, 10, 11, 12, 13, 14, 15, 16, 17, 18, 19, 20"
	default:
		return "[1, 2](Catalog)" + strings.Repeat("\n", r.Intn(3))
	}
}

// RunReusedNotation: a sequence of documents parsed on ONE notation instance;
// prop = "C11": every grammatical document must be accepted with its meaning
// whatever was parsed before; prop = "C12": every outcome must be a value or a
// diagnostic located in the CURRENT source.
func RunReusedNotation(c *core.Ctx, prop string) {
	r := c.Rng
	n := cdc.Notation().Make()
	k := r.Range(2, 6)
	var hist []string
	for i := 0; i < k; i++ {
		valid := r.Chance(1, 2)
		var src, want string
		if valid {
			src, want = Derive(r, r.Intn(3))
		} else {
			src = parserRejected(r)
		}
		o := ParseWith(n, src)
		hist = append(hist, fmt.Sprintf("%q valid=%v panicked=%v", clip(src, 80), valid, o.Panicked))
		cs := map[string]any{"documents_on_one_notation": hist, "sentence": clip(src, 600)}
		if prop == "C11" && valid && want != "" {
			if o.Panicked {
				cs["panic"] = clip(strings.SplitN(o.Text, "\n", 2)[0], 300)
				c.Violation("grammar/history-dependent", "a sentence of the grammar was rejected on a notation that had parsed other documents before", cs)
				return
			}
			if got, _ := Canon(o.Value); got != want {
				cs["parsed"] = clip(got, 600)
				c.Violation("grammar/history-dependent", "the meaning of a sentence changed on a notation that had parsed other documents before", cs)
				return
			}
		}
		if prop == "C12" {
			if sig, msg := ClassifyOutcome(src, o); sig != "" {
				cs["panic"] = clip(o.Text, 300)
				c.Violation(sig+"/reused-notation", msg, cs)
				return
			}
			if !CheckLeak(c, src, cs) {
				return
			}
		}
	}
	c.Cover("reused-notation.sequences")
	c.Distinct(core.HashStr(strings.Join(hist, "|")))
	if c.WantSample("reused-notation") {
		c.Sample("reused-notation", map[string]any{"documents_on_one_notation": hist})
	}
}

// RunC11M1: the schedules of scanner and parser for one derived sentence are
// explored depth-first under the controlled scheduler (at most two
// preemptions, 150 / 1000 schedules per sentence); every schedule must end (no goroutine left parked:
// that includes the scanner) with the denotation of the sentence.
// onlyMalformed (C12) draws malformed documents only and classifies every
// outcome against the statement of C12 as well.
func RunC11M1(c *core.Ctx, onlyMalformed bool, explore func(src string, budget, maxPreempt int, check func(value any, pan any) string) (int, string, []string)) {
	r := c.Rng
	d := &deriver{r: r}
	src, want := d.collection(r.Intn(2), 0)
	if r.Chance(1, 3) {
		// documents longer than the 16-token queue
		var parts []string
		n := r.Range(9, 30)
		for i := 0; i < n; i++ {
			parts = append(parts, strconv.Itoa(i%7))
		}
		src = "[" + strings.Join(parts, ", ") + "](List)"
		cs := make([]string, n)
		for i := range cs {
			cs[i] = fmt.Sprintf("i64:%d", i%7)
		}
		want = "List[" + strings.Join(cs, " ") + "]"
	}
	budget := core.Tiered(c.Tier, 150, 1000)
	malformed := r.Chance(1, 4) || onlyMalformed
	if malformed {
		// a malformed document with a long tail behind the first error: the
		// parser gives up while the scanner still has tokens to deliver
		cut := r.Intn(len(src) + 1)
		for cut > 0 && cut < len(src) && !utf8.RuneStart(src[cut]) {
			cut--
		}
		junk := []string{"]", ")", ":", ",", "[[", "$", "(Nope)", "\"open"}[r.Intn(8)]
		var tail []string
		for i, n := 0, r.Range(0, 24); i < n; i++ {
			tail = append(tail, []string{"1", ",", ":", "[", "]", "true", "\"s\"", "(List)"}[r.Intn(8)])
		}
		src = src[:cut] + junk + " " + strings.Join(tail, " ") + src[cut:]
	}
	var first *string
	n, verdict, trace := explore(src, budget, 2, func(value any, pan any) string {
		if malformed {
			if onlyMalformed {
				o := Outcome{Value: value, Panicked: pan != nil, Payload: pan, Text: fmt.Sprint(pan)}
				if sig, msg := ClassifyOutcome(src, o); sig != "" {
					return "[" + sig + "] " + msg
				}
			}
			// whatever the outcome is, it is the same on every schedule
			var out string
			if pan != nil {
				out = "panic: " + fmt.Sprint(pan)
			} else {
				out, _ = Canon(value)
				out = "value: " + out
			}
			if first == nil {
				first = &out
			} else if *first != out {
				return "the outcome of parsing a malformed document depends on the schedule: " + clip(*first, 200) + "  versus  " + clip(out, 200)
			}
			return ""
		}
		if pan != nil {
			if want == "" {
				return ""
			}
			return "a sentence of the grammar was rejected on this schedule: " + clip(fmt.Sprint(pan), 160)
		}
		if want == "" {
			return "a literal without exact representation was accepted"
		}
		if got, _ := Canon(value); got != want {
			return "the parsed collection differs from the denotation on this schedule: " + clip(got, 300)
		}
		return ""
	})
	cs := map[string]any{"sentence": clip(src, 600), "schedules_explored": n, "schedule": trace}
	switch {
	case strings.HasPrefix(verdict, "inconclusive"):
		c.Inconclusive("M1 (scanner/parser): " + verdict)
		return
	case strings.HasPrefix(verdict, "deadlock"):
		c.Violation("grammar/m1/goroutine-left-blocked", "scanner and parser reached a state in which a goroutine is unfinished and nobody can proceed: "+verdict, cs)
		return
	case strings.HasPrefix(verdict, "[") && strings.Contains(verdict, "] "):
		c.Violation("m1/"+verdict[1:strings.Index(verdict, "] ")], verdict[strings.Index(verdict, "] ")+2:], cs)
		return
	case verdict != "":
		c.Violation("grammar/m1/schedule-dependent", verdict, cs)
		return
	}
	c.CoverN("m1.scanner-parser-schedules", n)
	if malformed {
		c.Cover("m1.malformed-documents")
		if first != nil && strings.HasPrefix(*first, "panic") {
			c.Cover("m1.malformed-documents.rejected")
		}
	} else {
		c.Cover("m1.sentences")
	}
	c.Distinct(core.HashStr("m1" + src))
	if c.WantSample("m1-parse") {
		c.Sample("m1-parse", map[string]any{"sentence": clip(src, 200), "schedules_explored": n})
	}
}
