package cdcnmon

import (
	"fmt"

	col "github.com/craterdog/go-collection-framework/v4/collection"

	"verif/harness/internal/core"
)

// ---- C10: collections whose element type is not `any` ----
//
// The formatter recognises them by another route than collections of `any`
// (by the name of the implementing type), and the parser always yields
// collections of `any` holding the widest type of each literal class.  The
// oracle is structural, as the statement spells it out: same collection kind,
// element order, key/value pairing and exact numeric values - the canonical
// tree of the parsed value must be the canonical tree of the collection of
// `any` built from the same (widened) values.

func typedSeq[V any](r *core.Rng, kind string, vals []V) (typed any, want string) {
	switch kind {
	case "Array":
		typed = col.Array[V](notation).MakeFromArray(vals)
	case "List":
		typed = col.List[V](notation).MakeFromArray(vals)
	case "Set":
		typed = col.Set[V](notation).MakeFromArray(vals)
	case "Stack":
		typed = col.Stack[V](notation).MakeFromArray(vals)
	default:
		typed = col.Queue[V](notation).MakeFromArray(vals)
	}
	wide := make([]any, len(vals))
	for i, v := range vals {
		wide[i] = widen(any(v))
	}
	want, _ = Canon(BuildKind(r, kind, wide))
	return
}

func typedAssoc[K comparable, V any](kind string, ks []K, vs []V) (typed any, want string, multi bool) {
	var ref interface{ SetValue(any, any) }
	if kind == "Catalog" {
		t := col.Catalog[K, V](notation).Make()
		for i := range ks {
			t.SetValue(ks[i], vs[i])
		}
		typed = t
		ref = col.Catalog[any, any](notation).Make()
	} else {
		t := col.Map[K, V](notation).Make()
		for i := range ks {
			t.SetValue(ks[i], vs[i])
		}
		typed = t
		ref = col.Map[any, any](notation).Make()
	}
	for i := range ks {
		ref.SetValue(widen(any(ks[i])), widen(any(vs[i])))
	}
	want, multi = Canon(ref)
	return
}

func genN[V any](r *core.Rng, n int, g func(*core.Rng) V) []V {
	out := make([]V, n)
	for i := range out {
		out[i] = g(r)
	}
	return out
}

func distinctN[K comparable](r *core.Rng, n int, g func(*core.Rng) K) []K {
	var out []K
	seen := map[K]bool{}
	for tries := 0; len(out) < n && tries < 20*n+20; tries++ {
		k := g(r)
		if !seen[k] {
			seen[k] = true
			out = append(out, k)
		}
	}
	return out
}

// RunC10Typed: one typed collection per case.
func RunC10Typed(c *core.Ctx) {
	r := c.Rng
	n := []int{0, 1, 2, 3, 5, 9, 16}[r.Intn(7)]
	kind := []string{"Array", "List", "Set", "Stack", "Queue"}[r.Intn(5)]
	if r.Chance(1, 60) && kind != "Queue" {
		// a long document now and then (the scanner is quadratic in the length of the
		// source, so a few hundred items are about as long as a case should be)
		n = []int{300, 600}[r.Intn(2)]
		c.Cover("typed.long-documents")
	}
	var v any
	var want, label string
	multi := false
	f32 := func(r *core.Rng) float32 {
		if r.Bool() {
			return float32(r.Intn(2001)-1000) / float32(r.Range(1, 999))
		}
		return float32(genFloat(r) / 1e270)
	}
	switch r.Intn(20) {
	case 0:
		label = kind + "[int64]"
		v, want = typedSeq(r, kind, genN(r, n, genInt))
	case 1:
		label = kind + "[int]"
		v, want = typedSeq(r, kind, genN(r, n, func(r *core.Rng) int { return int(genInt(r)) }))
	case 2:
		label = kind + "[int8]"
		v, want = typedSeq(r, kind, genN(r, n, func(r *core.Rng) int8 { return int8(r.Uint64()) }))
	case 3:
		label = kind + "[uint8]"
		v, want = typedSeq(r, kind, genN(r, n, func(r *core.Rng) uint8 { return uint8(r.Uint64()) }))
	case 4:
		label = kind + "[uint64]"
		v, want = typedSeq(r, kind, genN(r, n, genUint))
	case 5:
		label = kind + "[float64]"
		v, want = typedSeq(r, kind, genN(r, n, genFloat))
	case 6:
		label = kind + "[float32]"
		v, want = typedSeq(r, kind, genN(r, n, f32))
	case 7:
		label = kind + "[string]"
		v, want = typedSeq(r, kind, genN(r, n, genString))
	case 8:
		label = kind + "[rune]"
		v, want = typedSeq(r, kind, genN(r, n, genRune))
	case 9:
		label = kind + "[bool]"
		v, want = typedSeq(r, kind, genN(r, n, func(r *core.Rng) bool { return r.Bool() }))
	case 10:
		label = kind + "[complex128]"
		v, want = typedSeq(r, kind, genN(r, n, func(r *core.Rng) complex128 { return complex(genFloat(r), genFloat(r)) }))
	case 11:
		label = kind + "[complex64]"
		v, want = typedSeq(r, kind, genN(r, n, func(r *core.Rng) complex64 { return complex(f32(r), f32(r)) }))
	case 12:
		ak := []string{"Catalog", "Map"}[r.Intn(2)]
		label = ak + "[string,int64]"
		ks := distinctN(r, n, genString)
		v, want, multi = typedAssoc(ak, ks, genN(r, len(ks), genInt))
	case 13:
		ak := []string{"Catalog", "Map"}[r.Intn(2)]
		label = ak + "[int64,string]"
		ks := distinctN(r, n, genInt)
		v, want, multi = typedAssoc(ak, ks, genN(r, len(ks), genString))
	case 14:
		ak := []string{"Catalog", "Map"}[r.Intn(2)]
		label = ak + "[rune,float32]"
		ks := distinctN(r, n, genRune)
		v, want, multi = typedAssoc(ak, ks, genN(r, len(ks), f32))
	case 16:
		// Go arrays and maps are written as Arrays and Maps
		label = "[]int64"
		vals := genN(r, n, genInt)
		v = vals
		_, want = typedSeq(r, "Array", vals)
	case 17:
		label = "[]string"
		vals := genN(r, n, genString)
		v = vals
		_, want = typedSeq(r, "Array", vals)
	case 18:
		label = "map[string]float64"
		ks := distinctN(r, n, genString)
		vs := genN(r, len(ks), genFloat)
		m := map[string]float64{}
		for i := range ks {
			m[ks[i]] = vs[i]
		}
		v = m
		_, want, multi = typedAssoc("Map", ks, vs)
	case 19:
		label = "List[any] of Go arrays and maps"
		a, b := genN(r, r.Intn(4), genInt), genN(r, r.Intn(4), genString)
		k := genString(r)
		v = col.List[any](notation).MakeFromArray([]any{a, b, map[string]int64{k: 7}, []any{int64(1), "x", nil}})
		wa := make([]any, len(a))
		for i := range a {
			wa[i] = a[i]
		}
		wb := make([]any, len(b))
		for i := range b {
			wb[i] = b[i]
		}
		wm := col.Map[any, any](notation).Make()
		wm.SetValue(k, int64(7))
		A := col.Array[any](notation)
		want, _ = Canon(col.List[any](notation).MakeFromArray([]any{A.MakeFromArray(wa), A.MakeFromArray(wb), wm, A.MakeFromArray([]any{int64(1), "x", nil})}))
	default:
		ak := []string{"Catalog", "Map"}[r.Intn(2)]
		label = ak + "[uint8,bool]"
		ks := distinctN(r, n, func(r *core.Rng) uint8 { return uint8(r.Uint64()) })
		v, want, multi = typedAssoc(ak, ks, genN(r, len(ks), func(r *core.Rng) bool { return r.Bool() }))
	}
	_ = multi
	if !roundTrip(c, v, want, true, "typed collection "+label) {
		return
	}
	// String() of a typed collection is the same text
	if st, ok := v.(fmt.Stringer); ok {
		var a, b string
		if pan, msg := try(func() { a, b = st.String(), notation.FormatValue(v) }); pan {
			c.Violation("string/panicked", "String() of a typed collection panicked: "+clip(msg, 200), map[string]any{"type": label})
			return
		}
		if a != b && sortedLines(a) != sortedLines(b) {
			c.Violation("string/differs-from-format", "String() and FormatValue disagree on a typed collection", map[string]any{"type": label, "string": clip(a, 400), "format": clip(b, 400)})
			return
		}
	}
	c.Cover("typed." + label)
	c.Distinct(core.HashStr(label + want))
	if len(want) < 300 && c.WantSample("typed") {
		c.Sample("typed", map[string]any{"type": label, "canonical": want})
	}
}
