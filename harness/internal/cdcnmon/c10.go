package cdcnmon

import (
	"fmt"
	"runtime/debug"
	"strings"

	mod "github.com/craterdog/go-collection-framework/v4"
	cdc "github.com/craterdog/go-collection-framework/v4/cdcn"
	col "github.com/craterdog/go-collection-framework/v4/collection"

	"verif/harness/internal/core"
)

func try(f func()) (panicked bool, msg string) {
	defer func() {
		if e := recover(); e != nil {
			panicked = true
			msg = fmt.Sprint(e)
		}
	}()
	f()
	return
}

// leafClass names the leaf classes present in a text (for signatures).
func floatClass(text string) string {
	if strings.Contains(text, "E+") || strings.Contains(text, "E-") {
		return "exponent"
	}
	return "plain"
}

// RoundTrip checks ParseSource(FormatValue(v)) == v and the text fix-point.
// exact=false: only the text fix-point is required (narrow numeric widths).
func RoundTrip(c *core.Ctx, v any, exact bool, label string) bool {
	cv, _ := Canon(v)
	return roundTrip(c, v, cv, exact, label)
}

// roundTrip: cv is the canonical tree the parsed value must have when exact is set.
func roundTrip(c *core.Ctx, v any, cv string, exact bool, label string) bool {
	var text1, text2 string
	var parsed any
	cs := map[string]any{"value": clip(cv, 1500), "generator": label}
	if pan, msg := try(func() { text1 = mod.FormatValue(v) }); pan {
		c.Violation("roundtrip/format-panicked", "FormatValue panicked: "+clip(msg, 300), cs)
		return false
	}
	cs["text"] = clip(text1, 1500)
	if pan, msg := try(func() { parsed = mod.ParseSource(text1) }); pan {
		first := strings.SplitN(msg, "\n", 2)[0]
		c.Violation("roundtrip/parse-rejected/"+floatClass(text1), "ParseSource rejects the text FormatValue produced: "+clip(first, 300), cs)
		return false
	}
	cp, mm := Canon(parsed)
	if exact && cp != cv {
		cs["parsed"] = clip(cp, 1500)
		c.Violation("roundtrip/value-differs/"+floatClass(text1), "the parsed value differs from the formatted one", cs)
		return false
	}
	if pan, msg := try(func() { text2 = mod.FormatValue(parsed) }); pan {
		c.Violation("roundtrip/reformat-panicked", "FormatValue of the parsed value panicked: "+clip(msg, 300), cs)
		return false
	}
	same := text1 == text2
	if !same && mm {
		same = sortedLines(text1) == sortedLines(text2)
	}
	if !same {
		cs["text2"] = clip(text2, 1500)
		c.Violation("roundtrip/text-not-a-fixpoint/"+floatClass(text1), "formatting the parsed value again gives a different text", cs)
		return false
	}
	return true
}

// RunC10Values: one generated collection (canonical dynamic types).
func RunC10Values(c *core.Ctx) {
	r := c.Rng
	depth := r.Intn(4)
	if r.Chance(1, 6) {
		depth = r.Range(4, 7)
	}
	v := GenCollection(r, depth)
	if !RoundTrip(c, v, true, "generated collection") {
		return
	}
	cv, mm := Canon(v)
	// String() of the collection (through the notation cached in its class) must be the same text
	if st, ok := v.(fmt.Stringer); ok {
		var a, b string
		if pan, msg := try(func() { a, b = st.String(), mod.FormatValue(v) }); pan {
			c.Violation("string/panicked", "String() panicked: "+clip(msg, 200), map[string]any{"value": clip(cv, 800)})
			return
		}
		if a != b && !(mm && sortedLines(a) == sortedLines(b)) {
			c.Violation("string/differs-from-format", "String() and FormatValue disagree", map[string]any{"value": clip(cv, 800), "string": clip(a, 600), "format": clip(b, 600)})
			return
		}
		c.Cover("string-equals-format")
	}
	c.Cover("values")
	c.Distinct(core.HashStr(cv))
	if len(cv) < 400 && c.WantSample("value") {
		c.Sample("value", map[string]any{"canonical": cv, "text": mod.FormatValue(v)})
	}
}

// RunC10Leaves: every leaf class alone in each of the five sequence kinds and
// as key and value of Catalog/Map (singleton and pair).
func RunC10Leaves(c *core.Ctx, idx int) {
	r := c.Rng
	var leaf any
	corner := idx / 7
	kind := Kinds[idx%7]
	all := LeafCorners()
	if corner < len(all) {
		leaf = all[corner]
	} else {
		leaf = GenLeaf(r)
	}
	items := []any{leaf}
	if r.Bool() {
		items = []any{leaf, GenLeaf(r)}
	}
	var v any
	if kind == "Catalog" || kind == "Map" {
		var a interface {
			col.Associative[any, any]
		}
		if kind == "Catalog" {
			a = col.Catalog[any, any](notation).Make()
		} else {
			a = col.Map[any, any](notation).Make()
		}
		a.SetValue(leaf, leaf) // the leaf as key and as value
		if len(items) > 1 && items[1] != leaf {
			a.SetValue(items[1], leaf)
		}
		v = a
	} else {
		v = BuildKind(r, kind, items)
	}
	if !RoundTrip(c, v, true, "leaf corner in "+kind) {
		return
	}
	cv, _ := Canon(v)
	c.Cover("leaf-corners")
	c.Distinct(core.HashStr(cv))
}

// LeafCorners lists every corner leaf once.
func LeafCorners() []any {
	var out []any
	out = append(out, nil, true, false)
	for _, f := range floatCorners {
		out = append(out, f)
	}
	for _, f := range []float64{1, -0.5, 1e6, 1e-7, 1e21, 5e-324} {
		out = append(out, complex(f, f), complex(f, -f), complex(0, f), complex(f, 0))
	}
	out = append(out, complex(0, 0), complex(1, 2), complex(-1.5, 1e300), complex(1e-5, 1e5))
	for _, x := range []int64{0, 1, -1, 42, 9223372036854775807, -9223372036854775808, 1000000, -1000000} {
		out = append(out, x)
	}
	for _, x := range []uint64{0, 1, 10, 255, 18446744073709551615, 1 << 63} {
		out = append(out, x)
	}
	for _, x := range runeCorners {
		out = append(out, x)
	}
	for _, x := range stringCorners {
		out = append(out, x)
	}
	return out
}

func C10LeafCases() int { return (len(LeafCorners()) + 60) * 7 }

// RunC10Narrow: narrower numeric widths, text fix-point only.
func RunC10Narrow(c *core.Ctx) {
	r := c.Rng
	n := r.Range(1, 6)
	items := make([]any, n)
	for i := range items {
		switch r.Intn(9) {
		case 0:
			items[i] = int(int32(r.Uint64()))
		case 1:
			items[i] = int8(r.Uint64())
		case 2:
			items[i] = int16(r.Uint64())
		case 3:
			items[i] = uint(r.Uint64() >> uint(r.Intn(64)))
		case 4:
			items[i] = uint8(r.Uint64())
		case 5:
			items[i] = uint16(r.Uint64())
		case 6:
			items[i] = uint32(r.Uint64())
		case 7:
			if r.Chance(1, 2) {
				items[i] = float32(genFloat(r) / 1e270)
			} else {
				// fractions that are not short decimals in double precision
				items[i] = float32(r.Intn(2001)-1000) / float32(r.Range(1, 999))
			}
		default:
			if r.Chance(1, 2) {
				items[i] = complex64(complex(float32(r.Intn(100))/8, float32(r.Intn(100))/4))
			} else {
				items[i] = complex64(complex(float32(r.Intn(2001)-1000)/float32(r.Range(1, 999)), float32(r.Intn(2001)-1000)/float32(r.Range(1, 99))))
			}
		}
	}
	kind := []string{"Array", "List", "Stack", "Queue"}[r.Intn(4)]
	v := BuildKind(r, kind, items)
	// the parser yields the widest type of each class; the numeric value must be exactly the
	// one that was formatted, so the parsed tree must be that of the widened items
	wide := make([]any, n)
	for i, x := range items {
		wide[i] = widen(x)
	}
	want, _ := Canon(BuildKind(r.Fork(), kind, wide))
	if roundTrip(c, v, want, true, "narrow widths in "+kind) {
		c.Cover("narrow")
		c.Distinct(core.HashStr(fmt.Sprintf("%s%#v", kind, items)))
	}
}

// widen converts a narrow numeric value to the type the parser yields for its class.
func widen(x any) any {
	switch t := x.(type) {
	case int:
		return int64(t)
	case int8:
		return int64(t)
	case int16:
		return int64(t)
	case uint:
		return uint64(t)
	case uint8:
		return uint64(t)
	case uint16:
		return uint64(t)
	case uint32:
		return uint64(t)
	case float32:
		return float64(t)
	case complex64:
		return complex128(t)
	}
	return x
}

// ---- totality: self-containing values and nests deeper than the limit ----

type ring struct {
	kind string
	val  any
	put  func(any)
}

func newRing(kind string, siblings int) *ring {
	g := &ring{kind: kind}
	switch kind {
	case "List":
		l := col.List[any](notation).Make()
		for i := 0; i < siblings; i++ {
			l.AppendValue(int64(i))
		}
		g.val, g.put = l, func(v any) { l.AppendValue(v) }
	case "Array":
		a := col.Array[any](notation).Make(uint(siblings + 1))
		for i := 0; i < siblings; i++ {
			a.SetValue(i+1, int64(i))
		}
		g.val, g.put = a, func(v any) { a.SetValue(-1, v) }
	case "Stack":
		s := col.Stack[any](notation).Make()
		for i := 0; i < siblings; i++ {
			s.AddValue(int64(i))
		}
		g.val, g.put = s, func(v any) { s.AddValue(v) }
	case "Queue":
		q := col.Queue[any](notation).Make()
		for i := 0; i < siblings; i++ {
			q.AddValue(int64(i))
		}
		g.val, g.put = q, func(v any) { q.AddValue(v) }
	case "Catalog":
		ct := col.Catalog[any, any](notation).Make()
		for i := 0; i < siblings; i++ {
			ct.SetValue(int64(i), int64(i))
		}
		g.val, g.put = ct, func(v any) { ct.SetValue("self", v) }
	case "Association":
		// reaches its value without any collection in between
		as := col.Association[any, any](notation).Make("self", nil)
		g.val, g.put = as, func(v any) { as.SetValue(v) }
	default:
		m := col.Map[any, any](notation).Make()
		for i := 0; i < siblings; i++ {
			m.SetValue(int64(i), int64(i))
		}
		g.val, g.put = m, func(v any) { m.SetValue("self", v) }
	}
	return g
}

var ringKinds = []string{"List", "Array", "Stack", "Queue", "Catalog", "Map", "Association"}

func C10TotalityCases() int { return (7 + 49 + 36) * 3 * 2 }

// RunC10Totality: FormatValue (and String()) must return for self-containing
// values and elide ("...") what is nested deeper than the limit.
func RunC10Totality(c *core.Ctx, idx int) {
	variant := idx % 2
	idx /= 2
	sib := []int{0, 1, 3}[idx%3]
	k := idx / 3
	var kinds []string
	nk := len(ringKinds)
	switch {
	case k < nk:
		kinds = []string{ringKinds[k]}
	case k < nk+nk*nk:
		k -= nk
		kinds = []string{ringKinds[k/nk], ringKinds[k%nk]}
	default:
		kinds = []string{ringKinds[c.Rng.Intn(nk)], ringKinds[c.Rng.Intn(nk)], ringKinds[c.Rng.Intn(nk)]}
	}
	if variant == 1 && strings.Contains(strings.Join(kinds, " "), "Association") {
		// (how much an association counts towards the limit of an acyclic nest is not
		// stated; associations take part in the self-containing shapes only)
		return
	}
	cs := map[string]any{"ring": kinds, "siblings": sib}
	var v any
	if variant == 0 {
		rs := make([]*ring, len(kinds))
		for i, kd := range kinds {
			rs[i] = newRing(kd, sib)
		}
		for i := range rs {
			rs[i].put(rs[(i+1)%len(rs)].val)
		}
		v = rs[0].val
		cs["shape"] = "self-containing"
	} else {
		// an acyclic nest deeper than the limit: 12 levels, kinds cycling
		var inner any = int64(7)
		for lvl := 0; lvl < 12; lvl++ {
			g := newRing(kinds[lvl%len(kinds)], sib)
			g.put(inner)
			inner = g.val
		}
		v = inner
		cs["shape"] = "acyclic nest of depth 12"
	}
	var text string
	if pan, msg := try(func() { text = mod.FormatValue(v) }); pan {
		c.Violation("totality/format-panicked", "FormatValue panicked: "+clip(msg, 300), cs)
		return
	}
	if !strings.Contains(text, "...") {
		cs["text"] = clip(text, 600)
		c.Violation("totality/no-elision", "FormatValue returned a text without the elision marker for a value nested deeper than the limit", cs)
		return
	}
	if len(text) > 1<<20 {
		c.Violation("totality/unbounded-text", fmt.Sprintf("FormatValue returned %d bytes", len(text)), cs)
		return
	}
	// String() of the collection goes through the class notation
	if s, ok := v.(fmt.Stringer); ok {
		var st string
		if pan, msg := try(func() { st = s.String() }); pan {
			c.Violation("totality/string-panicked", "String() panicked: "+clip(msg, 300), cs)
			return
		}
		if !strings.Contains(st, "...") {
			c.Violation("totality/no-elision", "String() returned a text without the elision marker", cs)
			return
		}
	}
	c.Cover("totality." + cs["shape"].(string))
	c.Distinct(core.Mix(core.HashStr(strings.Join(kinds, ">")), uint64(sib), uint64(variant)))
	if c.WantSample("totality") {
		cs["text_head"] = clip(text, 200)
		c.Sample("totality", cs)
	}
}

// ---- purity: results do not depend on earlier calls on the same notation ----

type unsupported struct{ X int }

// RunC10Purity: a random sequence of successful and failing FormatValue calls
// on ONE notation (and one formatter); every successful result must equal the
// result of a fresh notation on the same value.
func RunC10Purity(c *core.Ctx) {
	r := c.Rng
	shared := cdc.Notation().Make()
	sharedF := cdc.Formatter().Make()
	var hist []string
	n := r.Range(2, 8)
	for i := 0; i < n; i++ {
		failing := r.Chance(1, 3)
		var v any
		if failing {
			// an unsupported leaf somewhere inside
			items := []any{int64(1), unsupported{3}}
			if r.Bool() {
				items = []any{col.List[any](notation).MakeFromArray([]any{"x", unsupported{1}}), int64(2)}
			}
			if r.Bool() {
				items = items[:1]
				items[0] = unsupported{2}
			}
			v = BuildKind(r, []string{"List", "Array", "Catalog"}[r.Intn(3)], items)
		} else {
			v = GenCollection(r, r.Intn(3))
		}
		cv, multiMap := Canon(v)
		useFormatter := r.Bool()
		var got, want string
		if r.Chance(1, 3) {
			// a rejected parse on the same notation must not leave anything behind either
			bad := []string{"[1 2](List)", "](List", "[1: ](Catalog)", "[1, 2", "[\"a\": 1, 2](Catalog)", "[1, 2](Nope)", "[[1, 2](List)"}[r.Intn(7)]
			rejected, _ := try(func() { shared.ParseSource(bad) })
			hist = append(hist, fmt.Sprintf("ParseSource(%q) rejected=%v", bad, rejected))
		}
		pan, msg := try(func() {
			if useFormatter {
				got = sharedF.FormatValue(v)
			} else {
				got = shared.FormatValue(v)
			}
		})
		hist = append(hist, fmt.Sprintf("%s panicked=%v via-formatter=%v", clip(cv, 120), pan, useFormatter))
		cs := map[string]any{"calls_on_one_notation": hist}
		if failing {
			if !pan {
				c.Cover("purity.unsupported-leaf-accepted")
			}
			continue
		}
		if pan {
			c.Violation("purity/format-panicked", "FormatValue panicked on a supported value after earlier calls: "+clip(msg, 200), cs)
			return
		}
		if pan2, _ := try(func() { want = cdc.Notation().Make().FormatValue(v) }); pan2 {
			return
		}
		if got != want && !(multiMap && sortedLines(got) == sortedLines(want)) {
			cs["got"] = clip(got, 400)
			cs["fresh"] = clip(want, 400)
			c.Violation("purity/depends-on-earlier-calls", "the text differs from what a fresh notation returns for the same value", cs)
			return
		}
		// the round trip holds on this much-used notation as well
		var parsed any
		if pan3, msg3 := try(func() { parsed = shared.ParseSource(got) }); pan3 {
			cs["text"] = clip(got, 400)
			c.Violation("purity/roundtrip-rejected-after-earlier-calls", "ParseSource on a notation with earlier (also rejected) calls rejects the text FormatValue produced: "+clip(strings.SplitN(msg3, "\n", 2)[0], 200), cs)
			return
		}
		if cp, _ := Canon(parsed); cp != cv {
			cs["text"] = clip(got, 400)
			cs["parsed"] = clip(cp, 400)
			c.Violation("purity/roundtrip-differs-after-earlier-calls", "on a notation with earlier calls the parsed value differs from the formatted one", cs)
			return
		}
		c.Cover("purity.roundtrip-on-used-notation")
	}
	c.Cover("purity")
	c.Distinct(core.HashStr(strings.Join(hist, "|")))
	if c.WantSample("purity") {
		c.Sample("purity", map[string]any{"calls_on_one_notation": hist})
	}
}

// ---- reproducers ----

func ReproFloatExponent() (bool, string) {
	v := col.List[any](notation).MakeFromArray([]any{1e6, 1.5e-7})
	text := mod.FormatValue(v)
	var parsed any
	if pan, msg := try(func() { parsed = mod.ParseSource(text) }); pan {
		return true, "FormatValue([1e6 1.5e-7](List)) = " + fmt.Sprintf("%q", text) + " which ParseSource rejects: " + strings.SplitN(msg, "\n", 2)[0]
	}
	a, _ := Canon(v)
	b, _ := Canon(parsed)
	if a != b {
		return true, "round trip changed the value: " + b
	}
	return false, "floats with exponents round-trip: " + fmt.Sprintf("%q", text)
}

func ReproFormatAfterFailure() (bool, string) {
	n := cdc.Notation().Make()
	try(func() { n.FormatValue(col.List[any](notation).MakeFromArray([]any{int64(1), unsupported{1}})) })
	got := n.FormatValue(col.List[any](notation).MakeFromArray([]any{int64(5)}))
	want := cdc.Notation().Make().FormatValue(col.List[any](notation).MakeFromArray([]any{int64(5)}))
	if got != want {
		return true, fmt.Sprintf("after a failed FormatValue the same notation returns %q instead of %q", got, want)
	}
	return false, "a failed call leaves no trace"
}

// ReproSelfContaining runs in a child (it may overflow the stack).
func ReproSelfContaining() (bool, string) {
	l := col.List[any](notation).Make()
	l.AppendValue(l)
	var text string
	if pan, msg := try(func() { text = mod.FormatValue(l) }); pan {
		return true, "panicked: " + clip(msg, 200)
	}
	if !strings.Contains(text, "...") {
		return true, "no elision marker in " + clip(text, 200)
	}
	return false, "a singleton list containing itself is elided: " + clip(text, 80)
}

// ---- elision model: what is nested deeper than the limit - and nothing else - is elided ----

// refFormat is the harness's own statement of the documented layout for
// collections of integers: empty -> "[ ](K)", one item inline, several items one
// per line indented by four spaces per multi-line level, a collection nested
// deeper than `max` collections -> "[...](K)".
type refNode struct {
	kind string
	leaf int64
	kids []*refNode
}

func refFormat(n *refNode, level, indent, max int, sb *strings.Builder) {
	if n.kind == "" {
		fmt.Fprintf(sb, "%d", n.leaf)
		return
	}
	sb.WriteString("[")
	switch {
	case level+1 > max:
		sb.WriteString("...")
	case len(n.kids) == 0:
		sb.WriteString(" ")
	case len(n.kids) == 1:
		refFormat(n.kids[0], level+1, indent, max, sb)
	default:
		for _, k := range n.kids {
			sb.WriteString("\n" + strings.Repeat("    ", indent+1))
			refFormat(k, level+1, indent+1, max, sb)
		}
		sb.WriteString("\n" + strings.Repeat("    ", indent))
	}
	sb.WriteString("](" + n.kind + ")")
}

func genRef(r *core.Rng, depth int) *refNode {
	if depth <= 0 || r.Chance(1, 4) {
		return &refNode{leaf: int64(r.Intn(10))}
	}
	n := &refNode{kind: []string{"List", "Array", "Stack", "Queue"}[r.Intn(4)]}
	k := []int{0, 1, 1, 2, 2, 3}[r.Intn(6)]
	for i := 0; i < k; i++ {
		n.kids = append(n.kids, genRef(r, depth-1))
	}
	return n
}

func (n *refNode) build() any {
	if n.kind == "" {
		return n.leaf
	}
	items := make([]any, len(n.kids))
	for i, k := range n.kids {
		items[i] = k.build()
	}
	switch n.kind {
	case "List":
		return col.List[any](notation).MakeFromArray(items)
	case "Array":
		return col.Array[any](notation).MakeFromArray(items)
	case "Stack":
		return col.Stack[any](notation).MakeFromArray(items)
	}
	return col.Queue[any](notation).MakeFromArray(items)
}

// RunC10Elision: random trees up to depth 12 formatted with limits 0..8 (and
// the notation's default) must equal the reference layout exactly - deep parts
// elided, siblings within the limit printed in full.
func RunC10Elision(c *core.Ctx) {
	r := c.Rng
	root := genRef(r, r.Range(1, 12))
	if root.kind == "" {
		root = &refNode{kind: "List", kids: []*refNode{root, genRef(r, 11), genRef(r, 3)}}
	}
	v := root.build()
	max := r.Intn(10)
	var got string
	var want strings.Builder
	if max == 9 {
		max = cdc.Formatter().DefaultMaximum()
		if pan, msg := try(func() { got = mod.FormatValue(v) }); pan {
			c.Violation("elision/format-panicked", "FormatValue panicked: "+clip(msg, 200), nil)
			return
		}
	} else if pan, msg := try(func() { got = cdc.Formatter().MakeWithMaximum(max).FormatValue(v) }); pan {
		c.Violation("elision/format-panicked", "FormatValue panicked: "+clip(msg, 200), nil)
		return
	}
	refFormat(root, 0, 0, max, &want)
	want.WriteString("\n")
	if got != want.String() {
		c.Violation("elision/wrong-text", fmt.Sprintf("with a depth limit of %d the text differs from the documented layout (deep parts elided, everything within the limit printed)", max),
			map[string]any{"limit": max, "got": clip(got, 1200), "expected": clip(want.String(), 1200)})
		return
	}
	if strings.Contains(got, "...") {
		c.Cover("elision.texts-with-elided-parts")
	}
	c.Cover("elision")
	c.Distinct(core.Mix(core.HashStr(got), uint64(max)))
	if c.WantSample("elision") && len(got) < 300 && strings.Contains(got, "...") {
		c.Sample("elision", map[string]any{"limit": max, "text": got})
	}
}

// ReproSelfAssociationFormat: FormatValue of an association whose value is the
// association itself (child process: the original defect was a fatal stack overflow).
func ReproSelfAssociationFormat() (bool, string) {
	debug.SetMaxStack(64 << 20)
	a := col.Association[any, any](notation).Make("self", nil)
	a.SetValue(a)
	var text string
	if pan, msg := try(func() { text = mod.FormatValue(a) }); pan {
		return true, "FormatValue of a self-containing association panicked: " + clip(msg, 200)
	}
	if !strings.Contains(text, "...") || len(text) > 1<<16 {
		return true, "FormatValue of a self-containing association returned " + clip(text, 200)
	}
	return false, "FormatValue of a self-containing association returns an elided text"
}
