package seq

import (
	"fmt"
	"sort"

	col "github.com/craterdog/go-collection-framework/v4/collection"

	"verif/harness/internal/core"
)

// RunC02Large: sets of hundreds to thousands of members (the histories of
// RunC02History keep a set below a dozen).  Additions and removals of random
// values from a domain about twice the target size, under the default collator
// or a reversed one; the model is a Go map plus sorting.
func RunC02Large(c *core.Ctx) {
	r := c.Rng
	target := []int{17, 33, 64, 100, 255, 256, 257, 1000, 2000}[r.Intn(9)]
	dom := 2*target + 7
	reversed := r.Chance(1, 3)
	var s col.SetLike[int]
	if reversed {
		s = col.Set[int](Notation).MakeWithCollator(&HCollator[int]{Name: "reversed", Rank: func(a, b int) int { return b - a }})
	} else {
		s = col.Set[int](Notation).Make()
	}
	model := map[int]bool{}
	cs := map[string]any{"target_size": target, "reversed_collator": reversed}
	sorted := func() []int {
		out := make([]int, 0, len(model))
		for v := range model {
			out = append(out, v)
		}
		sort.Ints(out)
		if reversed {
			for i, j := 0, len(out)-1; i < j; i, j = i+1, j-1 {
				out[i], out[j] = out[j], out[i]
			}
		}
		return out
	}
	check := func(where string) bool {
		want := sorted()
		got := s.AsArray()
		if s.GetSize() != len(want) || len(got) != len(want) {
			c.Violation("largeset/"+where+"/size", fmt.Sprintf("%s: GetSize()=%d, AsArray has %d, model %d", where, s.GetSize(), len(got), len(want)), cs)
			return false
		}
		for i := range got {
			if got[i] != want[i] {
				c.Violation("largeset/"+where+"/order-or-contents", fmt.Sprintf("%s: position %d of %d holds %d, model %d", where, i+1, len(want), got[i], want[i]), cs)
				return false
			}
		}
		for k := 0; k < 12; k++ {
			v := r.Intn(dom)
			idx := 0
			for i, w := range want {
				if w == v {
					idx = i + 1
				}
			}
			if g := s.GetIndex(v); g != idx {
				c.Violation("largeset/"+where+"/getindex", fmt.Sprintf("%s: GetIndex(%d)=%d on a set of %d, model %d", where, v, g, len(want), idx), cs)
				return false
			}
			if g := s.ContainsValue(v); g != model[v] {
				c.Violation("largeset/"+where+"/contains", fmt.Sprintf("%s: ContainsValue(%d)=%v on a set of %d", where, v, g, len(want)), cs)
				return false
			}
			if idx > 0 {
				if g := s.GetValue(idx); g != v {
					c.Violation("largeset/"+where+"/getvalue", fmt.Sprintf("%s: GetValue(%d)=%d, model %d", where, idx, g, v), cs)
					return false
				}
			}
		}
		return true
	}
	failed := false
	pan, noret, msg := Try(func() {
		for step := 0; len(model) < target && step < 6*target+100; step++ {
			v := r.Intn(dom)
			switch r.Weighted([]int{10, 3, 1}) {
			case 0:
				s.AddValue(v)
				model[v] = true
			case 1:
				s.RemoveValue(v)
				delete(model, v)
			default:
				k := r.Range(2, 30)
				batch := make([]int, k)
				for j := range batch {
					batch[j] = r.Intn(dom)
					model[batch[j]] = true
				}
				s.AddValues(col.List[int](Notation).MakeFromArray(batch))
			}
			if step%211 == 0 {
				if !check("checkpoint") {
					failed = true
					return
				}
			}
		}
	})
	if failed {
		return
	}
	if pan || noret {
		c.Violation("largeset/panicked", "a valid call on a large set panicked or did not return: "+msg, cs)
		return
	}
	if !check("end") {
		return
	}
	c.Cover(fmt.Sprintf("largeset.%d", target))
	c.Distinct(core.Mix(0x5e71a26e, uint64(target), uint64(len(model)), core.HashStr(fmt.Sprint(reversed))))
	if c.WantSample("largeset") {
		cs["final_size"] = len(model)
		c.Sample("largeset", cs)
	}
}
