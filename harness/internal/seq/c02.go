package seq

import (
	"fmt"
	"strings"

	age "github.com/craterdog/go-collection-framework/v4/agent"
	col "github.com/craterdog/go-collection-framework/v4/collection"

	"verif/harness/internal/core"
)

// ---- C02: Set against the mathematical set, ordered by its collator ----

// HCollator is a harness-implemented CollatorLike (never repo code).
type HCollator[V any] struct {
	Name string
	Rank func(a, b V) int
	// Strict, when set, is what CompareValues answers: a notion of equality finer than
	// "ranks Equal" (the statement defines a Set by the ranking alone)
	Strict func(a, b V) bool
}

func (h *HCollator[V]) GetClass() age.CollatorClassLike[V] { return nil }
func (h *HCollator[V]) CompareValues(a, b V) bool {
	if h.Strict != nil {
		return h.Strict(a, b)
	}
	return h.Rank(a, b) == 0
}
func (h *HCollator[V]) RankValues(a, b V) age.Rank {
	switch r := h.Rank(a, b); {
	case r < 0:
		return age.LesserRank
	case r > 0:
		return age.GreaterRank
	}
	return age.EqualRank
}
func (h *HCollator[V]) GetDepth() int   { return 0 }
func (h *HCollator[V]) GetMaximum() int { return 16 }

// SetDom is an element domain with the orders the monitor needs.
type SetDom[V any] struct {
	Dom[V]
	// Universe lists the whole domain when it is small (probed exhaustively
	// after every call); nil for large domains.
	Universe []V
	// Coarse maps a value to a coarser key (several values rank equal).
	Coarse func(a, b V) int
}

func natural[V any](d Dom[V]) func(a, b V) int {
	return func(a, b V) int {
		switch {
		case d.Less(a, b):
			return -1
		case d.Less(b, a):
			return 1
		}
		return 0
	}
}

type setClassM[V any] struct{ cands []V }

type c02run[V any] struct {
	Run
	d     SetDom[V]
	rank  func(a, b V) int
	rname string
	real  col.SetLike[V]
	model []setClassM[V]
	muted bool
}

func (r *c02run[V]) find(v V) (int, bool) {
	for i, c := range r.model {
		k := r.rank(v, c.cands[0])
		if k == 0 {
			return i, true
		}
		if k < 0 {
			return i, false
		}
	}
	return len(r.model), false
}

func (r *c02run[V]) add(v V) {
	i, found := r.find(v)
	if found {
		r.model[i].cands = append(r.model[i].cands, v)
		return
	}
	r.model = append(r.model, setClassM[V]{})
	copy(r.model[i+1:], r.model[i:])
	r.model[i] = setClassM[V]{cands: []V{v}}
}

func (r *c02run[V]) remove(v V) {
	i, found := r.find(v)
	if found {
		r.model = append(r.model[:i:i], r.model[i+1:]...)
	}
}

func (r *c02run[V]) modelStr() string {
	var sb strings.Builder
	sb.WriteByte('{')
	for i, c := range r.model {
		if i > 0 {
			sb.WriteByte(' ')
		}
		sb.WriteString(r.d.Str(c.cands[0]))
		if len(c.cands) > 1 {
			fmt.Fprintf(&sb, "(+%d equal)", len(c.cands)-1)
		}
	}
	sb.WriteByte('}')
	return sb.String()
}

func (r *c02run[V]) isCand(i int, v V) bool {
	for _, c := range r.model[i].cands {
		if r.d.Same(c, v) {
			return true
		}
	}
	return false
}

func (r *c02run[V]) observe(after string) {
	r.Guard(after, func() {
		n := len(r.model)
		if g := r.real.GetSize(); g != n {
			r.Fail(after+"/state/size", "after %s: GetSize()=%d, model has %d members", after, g, n)
			return
		}
		if g := r.real.IsEmpty(); g != (n == 0) {
			r.Fail(after+"/state/isempty", "after %s: IsEmpty()=%v", after, g)
			return
		}
		arr := r.real.AsArray()
		if len(arr) != n {
			r.Fail(after+"/state/array", "after %s: AsArray()=%s", after, StrAll(r.d.Dom, arr))
			return
		}
		for i := range arr {
			if i > 0 && r.rank(arr[i-1], arr[i]) >= 0 {
				r.Fail(after+"/state/not-strictly-ascending", "after %s: AsArray()=%s is not strictly ascending under %s", after, StrAll(r.d.Dom, arr), r.rname)
				return
			}
			if r.rank(arr[i], r.model[i].cands[0]) != 0 || !r.isCand(i, arr[i]) {
				r.Fail(after+"/state/members", "after %s: AsArray()=%s", after, StrAll(r.d.Dom, arr))
				return
			}
		}
		fw, ok := WalkForward(r.real.GetIterator(), n+2)
		if !ok || !SameAll(r.d.Dom, fw, arr) {
			r.Fail(after+"/state/iterate", "after %s: iteration=%s, array view=%s", after, StrAll(r.d.Dom, fw), StrAll(r.d.Dom, arr))
			return
		}
		for i := 1; i <= n; i++ {
			if g := r.real.GetValue(i); !r.d.Same(g, arr[i-1]) {
				r.Fail(after+"/state/getvalue", "after %s: GetValue(%d)=%s", after, i, r.d.Str(g))
				return
			}
			if g := r.real.GetValue(-i); !r.d.Same(g, arr[n-i]) {
				r.Fail(after+"/state/getvalue-neg", "after %s: GetValue(%d)=%s", after, -i, r.d.Str(g))
				return
			}
		}
		// membership and index of every value of the universe (or of the members)
		probe := r.d.Universe
		if probe == nil {
			probe = arr
		}
		for _, v := range probe {
			i, found := r.find(v)
			want := 0
			if found {
				want = i + 1
			}
			if g := r.real.GetIndex(v); g != want {
				r.Fail(after+"/state/getindex", "after %s: GetIndex(%s)=%d, model %d", after, r.d.Str(v), g, want)
				return
			}
			if g := r.real.ContainsValue(v); g != found {
				r.Fail(after+"/state/contains", "after %s: ContainsValue(%s)=%v, model %v", after, r.d.Str(v), g, found)
				return
			}
		}
	})
}

func (r *c02run[V]) gen(rng *core.Rng) V {
	if r.d.Universe != nil {
		return r.d.Universe[rng.Intn(len(r.d.Universe))]
	}
	return r.d.Gen(rng)
}

func (r *c02run[V]) genVals(rng *core.Rng, n int) []V {
	vs := make([]V, n)
	for i := range vs {
		vs[i] = r.gen(rng)
	}
	return vs
}

type setOperand[V any] struct {
	seq  col.Sequential[V]
	vals []V
	kind string
}

func (r *c02run[V]) operand(rng *core.Rng) setOperand[V] {
	switch rng.Intn(8) {
	case 0:
		return setOperand[V]{col.List[V](Notation).Make(), nil, "empty"}
	case 1:
		var cur []V
		Try(func() { cur = r.real.AsArray() })
		return setOperand[V]{r.real, cur, "self"}
	case 2:
		vs := r.genVals(rng, rng.Intn(5))
		return setOperand[V]{&Spy[V]{Vals: Clone(vs)}, vs, "spy"}
	case 3:
		vs := r.genVals(rng, rng.Intn(5))
		var s col.SetLike[V]
		Try(func() { s = col.Set[V](Notation).MakeFromArray(vs) })
		if s != nil {
			var cur []V
			Try(func() { cur = s.AsArray() })
			return setOperand[V]{s, cur, "set"}
		}
		fallthrough
	default:
		vs := r.genVals(rng, rng.Intn(6))
		return setOperand[V]{col.List[V](Notation).MakeFromArray(vs), vs, "list"}
	}
}

// backdoor: a set is changed through the Flexible aspect only.  If the object
// also answers to the mutating aspects of lists (reachable by a type assertion),
// using them is a history like any other; none of them has a meaning under which
// "strictly ascending, each rank class once" survives, so the model stays as it is.
func (r *c02run[V]) backdoor(rng *core.Rng) {
	var what string
	r.Guard("backdoor", func() {
		switch x := any(r.real).(type) {
		case col.Sortable[V]:
			if len(r.model) > 1 {
				what = "Sortable.ReverseValues"
				x.ReverseValues()
			}
		case col.Updatable[V]:
			if len(r.model) > 1 {
				what = "Updatable.SetValue"
				x.SetValue(1, r.model[len(r.model)-1].cands[0])
			}
		case col.Expandable[V]:
			if len(r.model) > 0 {
				what = "Expandable.AppendValue"
				x.AppendValue(r.model[0].cands[0])
			}
		}
	})
	if what != "" && !r.Failed {
		r.Log("(type assertion) %s", what)
		r.observe("backdoor." + what)
	}
	r.C.Cover("set.backdoor-probed")
}

func (r *c02run[V]) step(rng *core.Rng) {
	if rng.Chance(1, 50) {
		r.backdoor(rng)
		if r.Failed {
			return
		}
	}
	n := len(r.model)
	ops := []string{"AddValue", "AddValues", "RemoveValue", "RemoveValues", "RemoveAll", "ContainsAny", "ContainsAll", "GetValue", "GetValues"}
	op := ops[rng.Weighted([]int{10, 4, 7, 3, 1, 2, 2, 2, 3})]
	before := r.modelStr()
	arg := ""
	returned := false
	switch op {
	case "AddValue":
		v := r.gen(rng)
		_, found := r.find(v)
		arg = fmt.Sprint(found)
		r.Log("AddValue(%s)", r.d.Str(v))
		if returned = r.Call(op, mustReturn, func() { r.real.AddValue(v) }); returned {
			r.add(v)
			r.muted = true
		}
	case "AddValues":
		o := r.operand(rng)
		arg = o.kind
		r.Log("AddValues(%s %s)", o.kind, StrAll(r.d.Dom, o.vals))
		if returned = r.Call(op, mustReturn, func() { r.real.AddValues(o.seq) }); returned {
			for _, v := range o.vals {
				r.add(v)
			}
			r.muted = r.muted || len(o.vals) > 0
		}
	case "RemoveValue":
		v := r.gen(rng)
		if n > 0 && rng.Chance(1, 2) {
			v = r.model[rng.Intn(n)].cands[0]
		}
		_, found := r.find(v)
		arg = fmt.Sprint(found)
		r.Log("RemoveValue(%s)", r.d.Str(v))
		if returned = r.Call(op, mustReturn, func() { r.real.RemoveValue(v) }); returned {
			r.remove(v)
			r.muted = true
		}
	case "RemoveValues":
		o := r.operand(rng)
		arg = o.kind
		r.Log("RemoveValues(%s %s)", o.kind, StrAll(r.d.Dom, o.vals))
		if returned = r.Call(op, mustReturn, func() { r.real.RemoveValues(o.seq) }); returned {
			for _, v := range o.vals {
				r.remove(v)
			}
			r.muted = r.muted || len(o.vals) > 0
		}
	case "RemoveAll":
		r.Log("RemoveAll()")
		if returned = r.Call(op, mustReturn, func() { r.real.RemoveAll() }); returned {
			r.model = nil
			r.muted = true
		}
	case "ContainsAny", "ContainsAll":
		o := r.operand(rng)
		anyIn, allIn := false, true
		for _, v := range o.vals {
			_, f := r.find(v)
			anyIn = anyIn || f
			allIn = allIn && f
		}
		want := anyIn
		var got bool
		r.Log("%s(%s %s)", op, o.kind, StrAll(r.d.Dom, o.vals))
		if op == "ContainsAll" {
			want = allIn
			returned = r.Call(op, mustReturn, func() { got = r.real.ContainsAll(o.seq) })
		} else {
			returned = r.Call(op, mustReturn, func() { got = r.real.ContainsAny(o.seq) })
		}
		arg = fmt.Sprint(o.kind, want)
		if returned && got != want {
			r.Fail(op+"/wrong-answer", "%s=%v, model %v", op, got, want)
		}
	case "GetValue":
		i := HostileIndex(rng, n)
		arg = IndexClass(i, n)
		p, ok := Norm(i, n)
		exp := mustPanic
		if ok {
			exp = mustReturn
		}
		r.Log("GetValue(%d)", i)
		var got V
		returned = r.Call(op, exp, func() { got = r.real.GetValue(i) })
		if returned && ok && r.rank(got, r.model[p-1].cands[0]) != 0 {
			r.Fail(op+"/wrong-value", "GetValue(%d)=%s", i, r.d.Str(got))
		}
	case "GetValues":
		f, l := HostileIndex(rng, n), HostileIndex(rng, n)
		arg = IndexClass(f, n) + IndexClass(l, n)
		pf, okf := Norm(f, n)
		pl, okl := Norm(l, n)
		exp := mustPanic
		if okf && okl {
			exp = mustReturn
			if pf > pl {
				exp = either
			}
		}
		r.Log("GetValues(%d,%d)", f, l)
		var got col.Sequential[V]
		returned = r.Call(op, exp, func() { got = r.real.GetValues(f, l) })
		if returned && okf && okl {
			var arr []V
			Try(func() { arr = got.AsArray() })
			wantN := pl - pf + 1
			if wantN < 0 {
				wantN = 0
			}
			bad := len(arr) != wantN
			for k := 0; !bad && k < len(arr); k++ {
				bad = r.rank(arr[k], r.model[pf-1+k].cands[0]) != 0
			}
			if bad {
				r.Fail(op+"/wrong-values", "GetValues(%d,%d)=%s", f, l, StrAll(r.d.Dom, arr))
			}
		}
	}
	if r.Failed {
		return
	}
	r.observe(op)
	if r.muted {
		out := "ok"
		if !returned {
			out = "panic"
		}
		r.C.Cover("set." + op + "." + out)
		r.C.Distinct(core.Mix(core.HashStr(r.d.Name+"/"+r.rname), core.HashStr(before), core.HashStr(op+"/"+arg+"/"+out)))
	}
}

func (r *c02run[V]) construct(rng *core.Rng, custom bool) bool {
	S := col.Set[V](Notation)
	how := rng.Intn(3)
	vs := r.genVals(rng, rng.Intn(7))
	ok := r.Call("construct", mustReturn, func() {
		switch {
		case custom:
			r.Log("Set.MakeWithCollator(%s)", r.rname)
			hc := &HCollator[V]{Name: r.rname, Rank: r.rank}
			if rng.Bool() {
				// a collator whose CompareValues is finer than its ranking
				hc.Strict = r.d.Same
				r.C.Cover("set.collator-with-strict-compare")
			}
			r.real = S.MakeWithCollator(hc)
		case how == 0:
			r.Log("Set.Make()")
			r.real = S.Make()
		case how == 1:
			r.Log("Set.MakeFromArray(%s)", StrAll(r.d.Dom, vs))
			r.real = S.MakeFromArray(vs)
			for _, v := range vs {
				r.add(v)
			}
		default:
			r.Log("Set.MakeFromSequence(spy %s)", StrAll(r.d.Dom, vs))
			r.real = S.MakeFromSequence(&Spy[V]{Vals: Clone(vs)})
			for _, v := range vs {
				r.add(v)
			}
		}
	})
	if !ok {
		return false
	}
	r.C.Cover(fmt.Sprintf("set.construct.%v.%d", custom, how))
	r.observe("construct")
	return !r.Failed
}

// RunC02History: collator is "default", "natural" (harness natural order
// supplied explicitly), "reversed" or "coarse".
func RunC02History[V any](c *core.Ctx, d SetDom[V], collator string, defaultRank func(a, b V) int) {
	r := &c02run[V]{d: d, rname: collator}
	r.Run = Run{C: c, Kind: "set", Meta: map[string]any{"element": d.Name, "collator": collator}}
	r.ModelStr = r.modelStr
	nat := defaultRank
	if nat == nil {
		nat = natural(d.Dom)
	}
	switch collator {
	case "default", "natural":
		r.rank = nat
	case "reversed":
		r.rank = func(a, b V) int { return -nat(a, b) }
	case "coarse":
		r.rank = d.Coarse
	}
	if !r.construct(c.Rng, collator != "default") {
		return
	}
	steps := c.Rng.Range(1, 40)
	for s := 0; s < steps && !r.Failed; s++ {
		r.step(c.Rng)
	}
	if !r.Failed && c.WantSample("set/"+d.Name+"/"+collator) {
		c.Sample("set/"+d.Name+"/"+collator, map[string]any{"history": r.Hist, "final": r.modelStr()})
	}
}

// RunC02Orders enumerates insertion orders: case idx selects (k, permutation
// of k distinct even numbers); every odd and even number around them is probed
// after every step (absent values before, between and after the members), then
// the members are removed in three different orders.
func RunC02Orders(c *core.Ctx, idx int, collator string) {
	// decode idx -> (k, perm index)
	fact := []int{1, 1, 2, 6, 24, 120, 720, 5040}
	k := 0
	for k < len(fact) && idx >= fact[k] {
		idx -= fact[k]
		k++
	}
	if k >= len(fact) {
		return
	}
	// idx-th permutation of 0..k-1 (factoradic)
	avail := make([]int, k)
	for i := range avail {
		avail[i] = i
	}
	perm := make([]int, 0, k)
	rem := idx
	for i := k; i > 0; i-- {
		f := fact[i-1]
		j := rem / f
		rem %= f
		perm = append(perm, avail[j])
		avail = append(avail[:j], avail[j+1:]...)
	}
	univ := make([]int, 0, 2*k+3)
	for v := -1; v <= 2*k+1; v++ {
		univ = append(univ, v)
	}
	d := SetDom[int]{Dom: IntDom(4), Universe: univ}
	d.Name = "int/orders"
	for variant := 0; variant < 3; variant++ {
		r := &c02run[int]{d: d, rname: collator}
		r.Run = Run{C: c, Kind: "set", Meta: map[string]any{"element": d.Name, "collator": collator, "order": perm}}
		r.ModelStr = r.modelStr
		nat := natural(d.Dom)
		r.rank = nat
		if collator == "reversed" {
			r.rank = func(a, b int) int { return -nat(a, b) }
		}
		if !r.Call("construct", mustReturn, func() {
			if collator == "default" {
				r.real = col.Set[int](Notation).Make()
			} else {
				r.real = col.Set[int](Notation).MakeWithCollator(&HCollator[int]{Name: collator, Rank: r.rank})
			}
		}) {
			return
		}
		for _, p := range perm {
			v := 2 * p
			r.Log("AddValue(%d)", v)
			if !r.Call("AddValue", mustReturn, func() { r.real.AddValue(v) }) {
				return
			}
			r.add(v)
			r.observe("AddValue")
			// adding a member again changes nothing
			if !r.Call("AddValue", mustReturn, func() { r.real.AddValue(v) }) {
				return
			}
			r.add(v)
			r.observe("AddValue(dup)")
			if r.Failed {
				return
			}
			c.Distinct(core.Mix(core.HashStr("orders/"+collator), core.HashStr(r.modelStr()), uint64(v)))
		}
		// removal of an absent value, then members in one of three orders
		order := make([]int, k)
		for i := range order {
			switch variant {
			case 0:
				order[i] = i
			case 1:
				order[i] = k - 1 - i
			default:
				order[i] = perm[i]
			}
		}
		for _, p := range order {
			for _, v := range []int{2*p + 1, 2 * p} {
				r.Log("RemoveValue(%d)", v)
				if !r.Call("RemoveValue", mustReturn, func() { r.real.RemoveValue(v) }) {
					return
				}
				r.remove(v)
				r.observe("RemoveValue")
				if r.Failed {
					return
				}
			}
			c.Distinct(core.Mix(core.HashStr("orders-rm/"+collator), core.HashStr(r.modelStr()), uint64(p), uint64(variant)))
		}
	}
	c.Cover(fmt.Sprintf("set.orders.k=%d", k))
	if c.WantSample("set/orders/" + collator) {
		c.Sample("set/orders/"+collator, map[string]any{"insertion_order_of_even_numbers": perm})
	}
}
