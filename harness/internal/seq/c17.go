package seq

import (
	"fmt"
	"math"
	"strings"

	age "github.com/craterdog/go-collection-framework/v4/agent"
	col "github.com/craterdog/go-collection-framework/v4/collection"

	"verif/harness/internal/core"
)

// ---- C17: iterators are bidirectional cursors over an immutable snapshot ----

// cursor is the model: slot in 0..len(vals).
type cursor struct {
	vals []int
	slot int
}

// itMove identifies one move: 0 GetNext, 1 GetPrevious, 2 ToStart, 3 ToEnd, 4+j ToSlot(-size-2+j)
// for j < 2*size+5, then ToSlot of the four extreme arguments.
func moveCount(size int) int { return 4 + 2*size + 5 + len(extremeSlots) }

var extremeSlots = []int{math.MinInt, math.MinInt + 1, math.MaxInt - 1, math.MaxInt}

// slotArg decodes the argument of a ToSlot move.
func slotArg(m, size int) int {
	j := m - 4
	if j < 2*size+5 {
		return j - size - 2
	}
	return extremeSlots[j-(2*size+5)]
}

func moveName(m, size int) string {
	switch m {
	case 0:
		return "GetNext"
	case 1:
		return "GetPrevious"
	case 2:
		return "ToStart"
	case 3:
		return "ToEnd"
	}
	return fmt.Sprintf("ToSlot(%d)", slotArg(m, size))
}

// applyMove performs the move on both and compares; returns a discrepancy.
func applyMove(it age.IteratorLike[int], cur *cursor, m int) string {
	n := len(cur.vals)
	switch m {
	case 0:
		got := it.GetNext()
		want := 0
		if cur.slot < n {
			want = cur.vals[cur.slot]
			cur.slot++
		}
		if got != want {
			return fmt.Sprintf("GetNext()=%d, model %d", got, want)
		}
	case 1:
		got := it.GetPrevious()
		want := 0
		if cur.slot > 0 {
			cur.slot--
			want = cur.vals[cur.slot]
		}
		if got != want {
			return fmt.Sprintf("GetPrevious()=%d, model %d", got, want)
		}
	case 2:
		it.ToStart()
		cur.slot = 0
	case 3:
		it.ToEnd()
		cur.slot = n
	default:
		k := slotArg(m, n)
		it.ToSlot(k)
		switch {
		case k > n:
			cur.slot = n
		case k >= 0:
			cur.slot = k
		case k >= -n:
			cur.slot = n + 1 + k // -1 is the end, -n is slot 1
		default:
			// below -size: "clamp" without a stated lower clamp: slot 0 or 1 (or 0 when empty)
			g := it.GetSlot()
			if g == 0 || (g == 1 && n >= 1) {
				cur.slot = g
			} else {
				return fmt.Sprintf("ToSlot(%d) on size %d left slot %d", k, n, g)
			}
		}
	}
	return checkCursor(it, cur)
}

func checkCursor(it age.IteratorLike[int], cur *cursor) string {
	n := len(cur.vals)
	if g := it.GetSlot(); g != cur.slot {
		return fmt.Sprintf("GetSlot()=%d, model %d", g, cur.slot)
	}
	if g := it.GetSlot(); g < 0 || g > n {
		return fmt.Sprintf("slot %d outside 0..%d", g, n)
	}
	if g := it.HasNext(); g != (cur.slot < n) {
		return fmt.Sprintf("HasNext()=%v at slot %d of %d", g, cur.slot, n)
	}
	if g := it.HasPrevious(); g != (cur.slot > 0) {
		return fmt.Sprintf("HasPrevious()=%v at slot %d of %d", g, cur.slot, n)
	}
	if g := it.GetSize(); g != n {
		return fmt.Sprintf("GetSize()=%d, model %d", g, n)
	}
	if g := it.IsEmpty(); g != (n == 0) {
		return fmt.Sprintf("IsEmpty()=%v, size %d", g, n)
	}
	return ""
}

// RunC17Exhaustive: idx selects (size 0..4, first move, second move); all
// continuations up to the tier's length are enumerated; each sequence is
// replayed on a fresh iterator of a fresh List.
func RunC17Exhaustive(c *core.Ctx, idx int) {
	length := core.Tiered(c.Tier, 4, 7)
	// decode
	size := 0
	for ; size <= 4; size++ {
		mc := moveCount(size)
		if idx < mc*mc {
			break
		}
		idx -= mc * mc
	}
	if size > 4 {
		return
	}
	mc := moveCount(size)
	m0, m1 := idx/mc, idx%mc
	vals := make([]int, size)
	for i := range vals {
		vals[i] = 10 + i
	}
	list := col.List[int](Notation).MakeFromArray(vals)
	seqn := make([]int, length)
	seqn[0], seqn[1] = m0, m1
	count := 0
	var rec func(pos int)
	failed := false
	run := func() {
		it := list.GetIterator()
		cur := &cursor{vals: vals}
		if d := checkCursor(it, cur); d != "" {
			c.Violation("iterator.fresh/"+d[:min(len(d), 12)], "fresh iterator: "+d, map[string]any{"size": size})
			failed = true
			return
		}
		for i, m := range seqn {
			pan, _, msg := Try(func() {
				if d := applyMove(it, cur, m); d != "" {
					names := make([]string, i+1)
					for j := 0; j <= i; j++ {
						names[j] = moveName(seqn[j], size)
					}
					c.Violation("iterator."+moveName(m, size)[:min(6, len(moveName(m, size)))]+"/cursor", "after "+fmt.Sprint(names)+": "+d,
						map[string]any{"size": size, "moves": names})
					failed = true
				}
			})
			if pan {
				c.Violation("iterator.move-panicked", "move "+moveName(m, size)+" panicked: "+msg, map[string]any{"size": size})
				failed = true
			}
			if failed {
				return
			}
		}
		count++
	}
	rec = func(pos int) {
		if failed {
			return
		}
		if pos == length {
			run()
			return
		}
		for m := 0; m < mc; m++ {
			seqn[pos] = m
			rec(pos + 1)
		}
	}
	rec(2)
	c.CoverN("move-sequences", count)
	c.Cover(fmt.Sprintf("size=%d", size))
	c.Distinct(core.Mix(uint64(size), uint64(m0), uint64(m1), uint64(length)))
	if c.WantSample("exhaustive") {
		c.Sample("exhaustive", map[string]any{"size": size, "first_moves": []string{moveName(m0, size), moveName(m1, size)}, "continuations_enumerated": count, "length": length})
	}
}

func C17ExhaustiveCases() int {
	t := 0
	for size := 0; size <= 4; size++ {
		t += moveCount(size) * moveCount(size)
	}
	return t
}

// source abstracts "a collection of ints that hands out iterators and can be mutated".
type itSource struct {
	kind    string
	iter    func() (age.IteratorLike[int], []int) // iterator + the values it must enumerate
	mutate  []func(r *core.Rng)
	mutName []string
}

// assocAdapter lets the int cursor model drive an association iterator.
type assocAdapter struct {
	it      age.IteratorLike[col.AssociationLike[int, int]]
	keyOnly bool
}

func enc(a col.AssociationLike[int, int]) int {
	if a == nil {
		return 0
	}
	return a.GetKey()*1000 + a.GetValue()
}
func (a *assocAdapter) GetClass() age.IteratorClassLike[int] { return nil }
func (a *assocAdapter) IsEmpty() bool                        { return a.it.IsEmpty() }
func (a *assocAdapter) ToStart()                             { a.it.ToStart() }
func (a *assocAdapter) ToSlot(s int)                         { a.it.ToSlot(s) }
func (a *assocAdapter) ToEnd()                               { a.it.ToEnd() }
func (a *assocAdapter) enc(x col.AssociationLike[int, int]) int {
	if a.keyOnly && x != nil {
		// A Catalog hands out its association objects themselves (by design, see
		// DESIGN.md C17/C18): the snapshot is the sequence of associations, whose
		// current values may legitimately change through SetValue.
		return x.GetKey() * 1000
	}
	return enc(x)
}
func (a *assocAdapter) GetNext() int      { return a.enc(a.it.GetNext()) }
func (a *assocAdapter) GetPrevious() int  { return a.enc(a.it.GetPrevious()) }
func (a *assocAdapter) HasNext() bool     { return a.it.HasNext() }
func (a *assocAdapter) HasPrevious() bool { return a.it.HasPrevious() }
func (a *assocAdapter) GetSize() int      { return a.it.GetSize() }
func (a *assocAdapter) GetSlot() int      { return a.it.GetSlot() }

func makeSource(kind string, r *core.Rng) *itSource {
	n := r.Intn(7)
	vals := make([]int, n)
	for i := range vals {
		vals[i] = 1 + i + 10*r.Intn(3) // non-zero so that the zero value at the ends is recognisable
	}
	next := 100
	fresh := func() int { next++; return next }
	s := &itSource{kind: kind}
	add := func(name string, f func(r *core.Rng)) {
		s.mutName = append(s.mutName, name)
		s.mutate = append(s.mutate, f)
	}
	switch kind {
	case "array":
		a := col.Array[int](Notation).MakeFromArray(vals)
		s.iter = func() (age.IteratorLike[int], []int) { return a.GetIterator(), a.AsArray() }
		add("SetValue", func(r *core.Rng) {
			if a.GetSize() > 0 {
				a.SetValue(1+r.Intn(a.GetSize()), fresh())
			}
		})
		add("SortValues", func(r *core.Rng) { a.SortValues() })
		add("ReverseValues", func(r *core.Rng) { a.ReverseValues() })
		add("ShuffleValues", func(r *core.Rng) { a.ShuffleValues() })
		add("SetValues", func(r *core.Rng) {
			if a.GetSize() > 0 {
				a.SetValues(1, col.List[int](Notation).MakeFromArray([]int{fresh()}))
			}
		})
	case "list":
		l := col.List[int](Notation).MakeFromArray(vals)
		s.iter = func() (age.IteratorLike[int], []int) { return l.GetIterator(), l.AsArray() }
		add("AppendValue", func(r *core.Rng) { l.AppendValue(fresh()) })
		add("InsertValue", func(r *core.Rng) { l.InsertValue(uint(r.Intn(l.GetSize()+1)), fresh()) })
		add("RemoveValue", func(r *core.Rng) {
			if l.GetSize() > 0 {
				l.RemoveValue(1 + r.Intn(l.GetSize()))
			}
		})
		add("SetValue", func(r *core.Rng) {
			if l.GetSize() > 0 {
				l.SetValue(1+r.Intn(l.GetSize()), fresh())
			}
		})
		add("RemoveAll", func(r *core.Rng) { l.RemoveAll() })
		add("SortValues", func(r *core.Rng) { l.SortValues() })
		add("ReverseValues", func(r *core.Rng) { l.ReverseValues() })
		add("ShuffleValues", func(r *core.Rng) { l.ShuffleValues() })
		add("AppendValues(self)", func(r *core.Rng) { l.AppendValues(l) })
		add("RemoveValues", func(r *core.Rng) {
			if l.GetSize() > 1 {
				l.RemoveValues(1, 2)
			}
		})
	case "set":
		st := col.Set[int](Notation).MakeFromArray(vals)
		s.iter = func() (age.IteratorLike[int], []int) { return st.GetIterator(), st.AsArray() }
		add("AddValue", func(r *core.Rng) { st.AddValue(r.Intn(40)) })
		add("RemoveValue", func(r *core.Rng) {
			if st.GetSize() > 0 {
				st.RemoveValue(st.GetValue(1 + r.Intn(st.GetSize())))
			}
		})
		add("RemoveAll", func(r *core.Rng) { st.RemoveAll() })
		add("AddValues", func(r *core.Rng) { st.AddValues(col.List[int](Notation).MakeFromArray([]int{fresh(), 0, 3})) })
	case "stack":
		st := col.Stack[int](Notation).MakeFromArray(vals)
		s.iter = func() (age.IteratorLike[int], []int) { return st.GetIterator(), st.AsArray() }
		add("AddValue", func(r *core.Rng) {
			if st.GetSize() < int(st.GetCapacity()) {
				st.AddValue(fresh())
			}
		})
		add("RemoveTop", func(r *core.Rng) {
			if st.GetSize() > 0 {
				st.RemoveTop()
			}
		})
		add("RemoveAll", func(r *core.Rng) { st.RemoveAll() })
	case "queue":
		q := col.Queue[int](Notation).MakeFromArray(vals)
		s.iter = func() (age.IteratorLike[int], []int) { return q.GetIterator(), q.AsArray() }
		add("AddValue", func(r *core.Rng) {
			if q.GetSize() < int(q.GetCapacity()) {
				q.AddValue(fresh())
			}
		})
		add("RemoveHead", func(r *core.Rng) {
			if q.GetSize() > 0 {
				q.RemoveHead()
			}
		})
		add("RemoveAll", func(r *core.Rng) { q.RemoveAll() })
	case "catalog", "map":
		var asc interface {
			col.Associative[int, int]
			col.Sequential[col.AssociationLike[int, int]]
		}
		if kind == "catalog" {
			c := col.Catalog[int, int](Notation).Make()
			asc = c
			add("SortValues", func(r *core.Rng) { c.SortValues() })
			add("ReverseValues", func(r *core.Rng) { c.ReverseValues() })
			add("ShuffleValues", func(r *core.Rng) { c.ShuffleValues() })
		} else {
			asc = col.Map[int, int](Notation).Make()
		}
		for i, v := range vals {
			asc.SetValue(i+1, v)
		}
		s.iter = func() (age.IteratorLike[int], []int) {
			it := asc.GetIterator()
			// the snapshot is whatever this iterator enumerates now (a Map has no stated order)
			ad := &assocAdapter{it: it, keyOnly: kind == "catalog"}
			var want []int
			for it.HasNext() {
				want = append(want, ad.enc(it.GetNext()))
			}
			it.ToStart()
			// cross-check with the association view taken at the same time
			if kind == "catalog" {
				arr := asc.AsArray()
				for i := range arr {
					if i < len(want) && ad.enc(arr[i]) != want[i] {
						want[i] = -1 // forces a discrepancy
					}
				}
			}
			return ad, want
		}
		add("SetValue(new)", func(r *core.Rng) { asc.SetValue(fresh(), 1) })
		add("SetValue(existing)", func(r *core.Rng) { asc.SetValue(1+r.Intn(4), fresh()%1000) })
		add("RemoveValue", func(r *core.Rng) { asc.RemoveValue(1 + r.Intn(6)) })
		add("RemoveAll", func(r *core.Rng) { asc.RemoveAll() })
		add("RemoveValues", func(r *core.Rng) { asc.RemoveValues(asc.GetKeys()) })
	}
	return s
}

var C17Kinds = []string{"array", "list", "set", "stack", "queue", "catalog", "map"}

// RunC17Snapshot: a random walk of one iterator interleaved with every
// mutating operation of its source and with moves of a second iterator.
func RunC17Snapshot(c *core.Ctx, kind string) {
	r := c.Rng
	var hist []string
	fail := func(sig, msg string) {
		c.Violation("iterator.snapshot/"+kind+"/"+sig, msg, map[string]any{"kind": kind, "history": hist})
	}
	pan, _, msg := Try(func() {
		src := makeSource(kind, r)
		it, want := src.iter()
		cur := &cursor{vals: want}
		if d := checkCursor(it, cur); d != "" {
			fail("fresh", "fresh iterator: "+d)
			return
		}
		var it2 age.IteratorLike[int]
		var cur2 *cursor
		steps := r.Range(5, 60)
		mutations := 0
		for s := 0; s < steps; s++ {
			switch r.Intn(4) {
			case 0: // mutate the source
				k := r.Intn(len(src.mutate))
				hist = append(hist, "source."+src.mutName[k])
				src.mutate[k](r)
				mutations++
				c.Cover(kind + "." + src.mutName[k])
			case 1: // obtain or move a second iterator
				if it2 == nil || r.Chance(1, 5) {
					var w2 []int
					it2, w2 = src.iter()
					cur2 = &cursor{vals: w2}
					hist = append(hist, "second iterator obtained")
				} else {
					m := r.Intn(moveCount(len(cur2.vals)))
					hist = append(hist, "it2."+moveName(m, len(cur2.vals)))
					if d := applyMove(it2, cur2, m); d != "" {
						fail("second-iterator", "second iterator: "+d)
						return
					}
				}
			default:
				m := r.Intn(moveCount(len(cur.vals)))
				hist = append(hist, "it1."+moveName(m, len(cur.vals)))
				if d := applyMove(it, cur, m); d != "" {
					fail("changed", fmt.Sprintf("first iterator (snapshot %v, %d source mutations so far): %s", want, mutations, d))
					return
				}
			}
		}
		// finally the first iterator must still enumerate its snapshot completely
		fw, _ := WalkForward(it, len(want)+2)
		if fmt.Sprint(fw) != fmt.Sprint(append([]int{}, want...)) && !(len(fw) == 0 && len(want) == 0) {
			fail("changed", fmt.Sprintf("after %d source mutations the first iterator enumerates %v, snapshot was %v", mutations, fw, want))
			return
		}
		c.Distinct(core.Mix(core.HashStr(kind), core.HashStr(fmt.Sprint(hist))))
		if c.WantSample("snapshot/" + kind) {
			c.Sample("snapshot/"+kind, map[string]any{"snapshot": want, "history": hist})
		}
	})
	if pan {
		fail("panicked", "panicked: "+msg)
	}
}

// RunC17Large: random moves on an iterator over a long list (the exhaustive
// engine stops at four values): slots around the ends, the middle and far
// outside, on a list of up to 3000 values.
func RunC17Large(c *core.Ctx) {
	r := c.Rng
	n := []int{5, 17, 64, 255, 1000, 3000}[r.Intn(6)]
	vals := make([]int, n)
	for i := range vals {
		vals[i] = 10 + i
	}
	it := col.List[int](Notation).MakeFromArray(vals).GetIterator()
	cur := &cursor{vals: vals}
	var trace []string
	for step := 0; step < 120; step++ {
		var d string
		name := ""
		switch k := r.Intn(8); {
		case k < 4:
			name = moveName(k, n)
			d = applyMove(it, cur, k)
		default:
			// ToSlot with an argument drawn near an interesting place
			arg := []int{0, 1, -1, n, -n, n + 1, -n - 1, n / 2, -(n / 2), n - 1, 2 - n, 3 * n, -3 * n}[r.Intn(13)] + r.Range(-1, 1)
			name = fmt.Sprintf("ToSlot(%d)", arg)
			it.ToSlot(arg)
			switch {
			case arg > n:
				cur.slot = n
			case arg >= 0:
				cur.slot = arg
			case arg >= -n:
				cur.slot = n + 1 + arg
			default:
				if g := it.GetSlot(); g == 0 || g == 1 {
					cur.slot = g
				} else {
					d = fmt.Sprintf("ToSlot(%d) on size %d left slot %d", arg, n, g)
				}
			}
			if d == "" {
				d = checkCursor(it, cur)
			}
		}
		trace = append(trace, name)
		if d != "" {
			c.Violation("iterator.large/"+strings.SplitN(name, "(", 2)[0], d, map[string]any{"size": n, "moves": trace})
			return
		}
	}
	c.Cover(fmt.Sprintf("iterator.large.%d", n))
	c.Distinct(core.Mix(0x17a, uint64(n), core.HashStr(strings.Join(trace, ","))))
}
