package seq

import (
	"fmt"
	"sort"

	col "github.com/craterdog/go-collection-framework/v4/collection"

	"verif/harness/internal/core"
)

// RunC03Large: catalogs (and, with ordered=false, Maps for C14) of hundreds to
// thousands of keys.  Model: insertion-ordered key slice + Go map.
func RunC03Large(c *core.Ctx, ordered bool) {
	r := c.Rng
	target := []int{17, 33, 100, 255, 256, 257, 1000, 3000}[r.Intn(8)]
	dom := 2*target + 5
	type assoc interface {
		col.Associative[int, int]
		col.Sequential[col.AssociationLike[int, int]]
	}
	var real assoc
	var cat col.CatalogLike[int, int]
	if ordered {
		cat = col.Catalog[int, int](Notation).Make()
		real = cat
	} else {
		real = col.Map[int, int](Notation).Make()
	}
	kind := map[bool]string{true: "largecatalog", false: "largemap"}[ordered]
	var order []int
	vals := map[int]int{}
	cs := map[string]any{"target_size": target}
	check := func(where string) bool {
		if real.GetSize() != len(vals) {
			c.Violation(kind+"/"+where+"/size", fmt.Sprintf("%s: GetSize()=%d, model %d", where, real.GetSize(), len(vals)), cs)
			return false
		}
		as := real.AsArray()
		ks := real.GetKeys().AsArray()
		if len(as) != len(vals) || len(ks) != len(vals) {
			c.Violation(kind+"/"+where+"/views", fmt.Sprintf("%s: AsArray has %d, GetKeys has %d, model %d", where, len(as), len(ks), len(vals)), cs)
			return false
		}
		seen := map[int]bool{}
		for i, a := range as {
			k := a.GetKey()
			if v, in := vals[k]; !in || v != a.GetValue() || seen[k] {
				c.Violation(kind+"/"+where+"/associations", fmt.Sprintf("%s: association %d is %d:%d (in the model: %v, value %d, seen before: %v)", where, i+1, k, a.GetValue(), in, v, seen[k]), cs)
				return false
			}
			seen[k] = true
			if ordered && (order[i] != k || ks[i] != k) {
				c.Violation(kind+"/"+where+"/order", fmt.Sprintf("%s: position %d holds key %d (GetKeys: %d), model %d", where, i+1, k, ks[i], order[i]), cs)
				return false
			}
		}
		for j := 0; j < 12; j++ {
			k := r.Intn(dom)
			if g := real.GetValue(k); g != vals[k] {
				c.Violation(kind+"/"+where+"/getvalue", fmt.Sprintf("%s: GetValue(%d)=%d, model %d", where, k, g, vals[k]), cs)
				return false
			}
		}
		return true
	}
	failed := false
	next := 0
	pan, noret, msg := Try(func() {
		for step := 0; len(vals) < target && step < 6*target+100; step++ {
			k := r.Intn(dom)
			if r.Chance(3, 4) {
				next++
				real.SetValue(k, next)
				if _, in := vals[k]; !in {
					order = append(order, k)
				}
				vals[k] = next
			} else {
				g := real.RemoveValue(k)
				if g != vals[k] {
					c.Violation(kind+"/removevalue", fmt.Sprintf("RemoveValue(%d)=%d at size %d, model %d", k, g, len(vals), vals[k]), cs)
					failed = true
					return
				}
				if _, in := vals[k]; in {
					delete(vals, k)
					for i, o := range order {
						if o == k {
							order = append(order[:i], order[i+1:]...)
							break
						}
					}
				}
			}
			if step%307 == 0 && !check("checkpoint") {
				failed = true
				return
			}
		}
	})
	if failed {
		return
	}
	if pan || noret {
		c.Violation(kind+"/panicked", "a valid call on a large collection panicked or did not return: "+msg, cs)
		return
	}
	if !check("end") {
		return
	}
	if ordered {
		// sorting and reversing change the order only
		pan, _, msg = Try(func() {
			if r.Bool() {
				cat.SortValues()
				sort.Ints(order)
			} else {
				cat.ReverseValues()
				for i, j := 0, len(order)-1; i < j; i, j = i+1, j-1 {
					order[i], order[j] = order[j], order[i]
				}
			}
		})
		if pan {
			c.Violation(kind+"/panicked", "sorting or reversing a large catalog panicked: "+msg, cs)
			return
		}
		if !check("after-reordering") {
			return
		}
	}
	c.Cover(fmt.Sprintf("%s.%d", kind, target))
	c.Distinct(core.Mix(core.HashStr(kind), uint64(target), uint64(len(vals)), uint64(next)))
	if c.WantSample(kind) {
		cs["final_size"] = len(vals)
		c.Sample(kind, cs)
	}
}
