package seq

import (
	"fmt"
	"math/bits"
	"sort"

	age "github.com/craterdog/go-collection-framework/v4/agent"
	col "github.com/craterdog/go-collection-framework/v4/collection"

	"verif/harness/internal/core"
)

// ---- C09: sorting yields an ordered permutation for every ranker ----

// Tag is a value with a unique identity so that loss, duplication and
// alteration are visible.
type Tag struct{ Val, ID int }

type rankerSpec struct {
	name     string
	preorder bool // a total preorder: the result must be ascending
	mk       func(r *core.Rng) func(a, b Tag) age.Rank
}

func cmp3(x, y int) age.Rank {
	switch {
	case x < y:
		return age.LesserRank
	case x > y:
		return age.GreaterRank
	}
	return age.EqualRank
}

var c09rankers = []rankerSpec{
	{"natural", true, func(*core.Rng) func(a, b Tag) age.Rank { return func(a, b Tag) age.Rank { return cmp3(a.Val, b.Val) } }},
	{"reversed", true, func(*core.Rng) func(a, b Tag) age.Rank { return func(a, b Tag) age.Rank { return cmp3(b.Val, a.Val) } }},
	{"coarse", true, func(*core.Rng) func(a, b Tag) age.Rank {
		return func(a, b Tag) age.Rank { return cmp3(a.Val/2, b.Val/2) }
	}},
	{"constant", true, func(*core.Rng) func(a, b Tag) age.Rank { return func(a, b Tag) age.Rank { return age.EqualRank } }},
	{"always-lesser", false, func(*core.Rng) func(a, b Tag) age.Rank { return func(a, b Tag) age.Rank { return age.LesserRank } }},
	{"always-greater", false, func(*core.Rng) func(a, b Tag) age.Rank { return func(a, b Tag) age.Rank { return age.GreaterRank } }},
	{"random", false, func(r *core.Rng) func(a, b Tag) age.Rank {
		rr := r.Fork()
		return func(a, b Tag) age.Rank { return age.Rank(rr.Intn(3)) }
	}},
	// Rank is an open integer type: a ranker may answer with something that is none of
	// the three named ranks ("unordered"); the result is still a permutation
	{"out-of-range", false, func(r *core.Rng) func(a, b Tag) age.Rank {
		rr := r.Fork()
		return func(a, b Tag) age.Rank { return age.Rank([]int{0, 1, 2, 3, 7, 255}[rr.Intn(6)]) }
	}},
}

type rankLimit struct{ calls int }

// sortCheck sorts vals with the given ranker through the agent.Sorter and
// checks permutation / order / termination.
func sortCheck(c *core.Ctx, vals []int, rs rankerSpec, r *core.Rng, viaCollections bool) bool {
	n := len(vals)
	in := make([]Tag, n)
	for i, v := range vals {
		in[i] = Tag{v, i}
	}
	base := rs.mk(r)
	calls := 0
	bound := 100
	if n > 1 {
		bound = 10*n*bits.Len(uint(n-1)) + 100
	}
	ranker := func(a, b Tag) age.Rank {
		calls++
		if calls > bound {
			panic(rankLimit{calls})
		}
		return base(a, b)
	}
	cs := map[string]any{"ranker": rs.name, "input": fmt.Sprint(vals)}
	if n > 40 {
		cs["input"] = fmt.Sprintf("%v… (n=%d)", vals[:40], n)
	}
	work := append([]Tag{}, in...)
	var pmsg string
	noTerm := false
	decoyBad := false
	func() {
		defer func() {
			if e := recover(); e != nil {
				if _, ok := e.(rankLimit); ok {
					noTerm = true
				}
				pmsg = fmt.Sprint(e)
			}
		}()
		// the sorter under test is made first, then decoy sorters of the same
		// type with other rankers are made and used: sorters are independent
		sorter := age.Sorter[Tag]().MakeWithRanker(ranker)
		decoy := age.Sorter[Tag]().MakeWithRanker(func(a, b Tag) age.Rank { return cmp3(b.ID, a.ID) })
		dw := append([]Tag{}, in...)
		decoy.SortValues(dw)
		for i := 0; i+1 < len(dw); i++ {
			if dw[i].ID < dw[i+1].ID {
				decoyBad = true
			}
		}
		_ = age.Sorter[Tag]().Make()
		sorter.SortValues(work)
	}()
	if decoyBad {
		c.Violation("sort.SortValues/sorters-not-independent", "a second sorter of the same type (ranker: descending id) did not sort by its own ranker", cs)
		return false
	}
	if noTerm {
		c.Violation("sort.SortValues/no-termination/"+rs.name, fmt.Sprintf("the ranker was called more than %d times for %d values", bound, n), cs)
		return false
	}
	if pmsg != "" {
		c.Violation("sort.SortValues/panicked/"+rs.name, "SortValues panicked: "+pmsg, cs)
		return false
	}
	// permutation: every id exactly once with its value
	seen := make([]bool, n)
	bad := len(work) != n
	for _, t := range work {
		if bad || t.ID < 0 || t.ID >= n || seen[t.ID] || vals[t.ID] != t.Val {
			bad = true
			break
		}
		seen[t.ID] = true
	}
	if bad {
		c.Violation("sort.SortValues/not-a-permutation/"+rs.name, fmt.Sprintf("result %v is not a permutation of the tagged input", work), cs)
		return false
	}
	if rs.preorder {
		for i := 0; i+1 < n; i++ {
			if base(work[i], work[i+1]) == age.GreaterRank {
				c.Violation("sort.SortValues/not-ascending/"+rs.name, fmt.Sprintf("result %v: position %d ranks Greater than its successor", work, i+1), cs)
				return false
			}
		}
	}
	if viaCollections && rs.preorder && rs.name != "random" {
		// Array, List and Catalog must produce the identical arrangement (same deterministic algorithm, same ranker)
		want := fmt.Sprint(work)
		// "the same effect": a permutation of the same tagged values that is
		// position-wise rank-equal to the sorter's arrangement (the arrangement of
		// values the ranker cannot tell apart is not constrained)
		sameEffect := func(got []Tag) bool {
			if len(got) != len(work) {
				return false
			}
			seen := make([]bool, n)
			for i, t := range got {
				if t.ID < 0 || t.ID >= n || seen[t.ID] || vals[t.ID] != t.Val || base(t, work[i]) != age.EqualRank {
					return false
				}
				seen[t.ID] = true
			}
			return true
		}
		arr := col.Array[Tag](Notation).MakeFromArray(in)
		arr.SortValuesWithRanker(base)
		lst := col.List[Tag](Notation).MakeFromArray(in)
		lst.SortValuesWithRanker(base)
		if !sameEffect(arr.AsArray()) || !sameEffect(lst.AsArray()) {
			c.Violation("sort.collection/differs-from-sorter/"+rs.name, fmt.Sprintf("sorter: %s array: %v list: %v", want, arr.AsArray(), lst.AsArray()), cs)
			return false
		}
		cat := col.Catalog[int, int](Notation).Make()
		for _, t := range in {
			cat.SetValue(t.ID, t.Val)
		}
		cat.SortValuesWithRanker(func(a, b col.AssociationLike[int, int]) age.Rank {
			return base(Tag{a.GetValue(), a.GetKey()}, Tag{b.GetValue(), b.GetKey()})
		})
		got := make([]Tag, 0, n)
		for _, a := range cat.AsArray() {
			got = append(got, Tag{a.GetValue(), a.GetKey()})
		}
		if !sameEffect(got) && n > 0 {
			c.Violation("sort.collection/differs-from-sorter/"+rs.name, fmt.Sprintf("sorter: %s catalog: %v", want, got), cs)
			return false
		}
	}
	return true
}

// reverseShuffleCheck covers ReverseValues and ShuffleValues of the sorter and
// of the collections.
func reverseShuffleCheck(c *core.Ctx, vals []int) bool {
	n := len(vals)
	cs := map[string]any{"input": fmt.Sprint(vals)}
	s := age.Sorter[int]().Make()
	w := Clone(vals)
	s.ReverseValues(w)
	for i := range w {
		if w[i] != vals[n-1-i] {
			c.Violation("sort.ReverseValues/not-mirror", fmt.Sprintf("ReverseValues gave %v", w), cs)
			return false
		}
	}
	s.ReverseValues(w)
	if fmt.Sprint(w) != fmt.Sprint(vals) {
		c.Violation("sort.ReverseValues/twice-not-identity", fmt.Sprintf("twice gave %v", w), cs)
		return false
	}
	for _, kind := range []string{"array", "list", "catalog"} {
		var got []int
		switch kind {
		case "array":
			a := col.Array[int](Notation).MakeFromArray(vals)
			a.ReverseValues()
			got = a.AsArray()
		case "list":
			l := col.List[int](Notation).MakeFromArray(vals)
			l.ReverseValues()
			got = l.AsArray()
		default:
			ct := col.Catalog[int, int](Notation).Make()
			for i, v := range vals {
				ct.SetValue(i, v)
			}
			ct.ReverseValues()
			for i, a := range ct.AsArray() {
				if a.GetKey() != n-1-i {
					c.Violation("sort.collection/Reverse", "Catalog.ReverseValues is not the mirror", cs)
					return false
				}
				got = append(got, a.GetValue())
			}
		}
		for i := range got {
			if got[i] != vals[n-1-i] {
				c.Violation("sort.collection/Reverse", kind+".ReverseValues is not the mirror: "+fmt.Sprint(got), cs)
				return false
			}
		}
	}
	sh := Clone(vals)
	s.ShuffleValues(sh)
	a, b := Clone(vals), Clone(sh)
	sort.Ints(a)
	sort.Ints(b)
	if fmt.Sprint(a) != fmt.Sprint(b) {
		c.Violation("sort.ShuffleValues/not-a-permutation", fmt.Sprintf("ShuffleValues gave %v", sh), cs)
		return false
	}
	return true
}

// arrays of length 0..9 over a 4-value alphabet, in enumeration order
const C09Total = (1<<20 - 1) / 3     // arrays of length 0..9: (4^10-1)/3 = 349525
const C09TotalDeep = (1<<22 - 1) / 3 // arrays of length 0..10: 1398101 (thorough tier)
const c09Block = 128

func c09Total(tier string) int { return core.Tiered(tier, C09Total, C09TotalDeep) }

func C09Blocks(tier string) int { return (c09Total(tier) + c09Block - 1) / c09Block }

func nthArray(k int) []int {
	l, cnt := 0, 1
	for k >= cnt {
		k -= cnt
		cnt *= 4
		l++
	}
	a := make([]int, l)
	for i := l - 1; i >= 0; i-- {
		a[i] = k & 3
		k >>= 2
	}
	return a
}

func RunC09Exhaustive(c *core.Ctx, idx int) {
	lo, hi := idx*c09Block, (idx+1)*c09Block
	if hi > c09Total(c.Tier) {
		hi = c09Total(c.Tier)
	}
	thorough := c.Tier == "thorough"
	n := 0
	for k := lo; k < hi; k++ {
		a := nthArray(k)
		for ri, rs := range c09rankers {
			if ri >= 3 && !thorough && k%16 != 0 {
				continue
			}
			if !sortCheck(c, a, rs, c.Rng, k%8 == 0) {
				return
			}
			n++
		}
		if k%4 == 0 && !reverseShuffleCheck(c, a) {
			return
		}
	}
	c.CoverN("sorts", n)
	c.CoverN("arrays", hi-lo)
	c.Distinct(core.Mix(0x909, uint64(idx)))
	if c.WantSample("exhaustive") {
		c.Sample("exhaustive", map[string]any{"first_array_of_block": nthArray(lo), "last_array_of_block": nthArray(hi - 1), "rankers": len(c09rankers)})
	}
}

func RunC09Random(c *core.Ctx) {
	r := c.Rng
	n := r.Intn(300)
	if r.Chance(1, 10) {
		n = r.Range(300, 5000)
	}
	// lengths around powers of two are the interesting ones
	if r.Chance(1, 4) {
		n = 1<<uint(r.Range(1, 9)) + r.Range(-2, 2)
		if n < 0 {
			n = 0
		}
	}
	dom := []int{2, 4, 1000000}[r.Intn(3)]
	vals := make([]int, n)
	shape := r.Intn(5)
	for i := range vals {
		switch shape {
		case 0:
			vals[i] = r.Intn(dom)
		case 1:
			vals[i] = i / 3 // presorted with ties
		case 2:
			vals[i] = (n - i) / 2 // reversed
		case 3:
			vals[i] = i % 7 // saw-tooth
		default:
			vals[i] = r.Intn(dom) * (i % 2)
		}
	}
	rs := c09rankers[r.Intn(len(c09rankers))]
	if !sortCheck(c, vals, rs, r, n < 400) {
		return
	}
	if n < 400 && !reverseShuffleCheck(c, vals) {
		return
	}
	c.Cover("random." + rs.name)
	c.Distinct(core.Mix(core.HashStr(rs.name), uint64(n), uint64(shape), uint64(dom)))
	if c.WantSample("random") {
		c.Sample("random", map[string]any{"n": n, "shape": shape, "domain": dom, "ranker": rs.name})
	}
}

// RunC09Default: the default rankers (SortValues without ranker) on ints and strings.
func RunC09Default(c *core.Ctx) {
	r := c.Rng
	n := r.Intn(40)
	vals := make([]int, n)
	for i := range vals {
		vals[i] = r.Intn(6) - 2
	}
	want := Clone(vals)
	sort.Ints(want)
	cs := map[string]any{"input": fmt.Sprint(vals)}
	w := Clone(vals)
	age.Sorter[int]().Make().SortValues(w)
	a := col.Array[int](Notation).MakeFromArray(vals)
	a.SortValues()
	l := col.List[int](Notation).MakeFromArray(vals)
	l.SortValues()
	if fmt.Sprint(w) != fmt.Sprint(want) || fmt.Sprint(a.AsArray()) != fmt.Sprint(want) || fmt.Sprint(l.AsArray()) != fmt.Sprint(want) {
		c.Violation("sort.default-ranker", fmt.Sprintf("sorter %v array %v list %v expected %v", w, a.AsArray(), l.AsArray(), want), cs)
		return
	}
	// a catalog sorted with the default ranker keeps its mapping and ends up ordered by key
	ct := col.Catalog[int, int](Notation).Make()
	for i, v := range vals {
		ct.SetValue(v*100+i, i)
	}
	ct.SortValues()
	prev := -1 << 60
	for _, as := range ct.AsArray() {
		if as.GetKey() < prev || as.GetValue() != as.GetKey()-vals[as.GetValue()]*100 {
			c.Violation("sort.default-ranker/catalog", fmt.Sprintf("catalog after SortValues: %s", showAssocKV(ct)), cs)
			return
		}
		prev = as.GetKey()
	}
	// element types that Go cannot compare with == (slices, maps): default ranker and a
	// ranker of the caller's; the result must be a permutation in lexicographic order
	m := r.Intn(12)
	sl := make([][]int, m)
	for i := range sl {
		sl[i] = []int{r.Intn(3), r.Intn(3), i} // the last component makes every value distinct
	}
	lexLess := func(a, b []int) bool {
		for k := 0; k < len(a) && k < len(b); k++ {
			if a[k] != b[k] {
				return a[k] < b[k]
			}
		}
		return len(a) < len(b)
	}
	wantSl := make([][]int, m)
	copy(wantSl, sl)
	sort.Slice(wantSl, func(i, j int) bool { return lexLess(wantSl[i], wantSl[j]) })
	for _, how := range []string{"default ranker", "own ranker", "List.SortValues", "maps with own ranker"} {
		var got string
		wantStr := fmt.Sprint(wantSl)
		pan, _, msg := Try(func() {
			switch how {
			case "default ranker":
				w := make([][]int, m)
				copy(w, sl)
				age.Sorter[[]int]().Make().SortValues(w)
				got = fmt.Sprint(w)
			case "own ranker":
				w := make([][]int, m)
				copy(w, sl)
				age.Sorter[[]int]().MakeWithRanker(func(a, b []int) age.Rank {
					switch {
					case lexLess(a, b):
						return age.LesserRank
					case lexLess(b, a):
						return age.GreaterRank
					}
					return age.EqualRank
				}).SortValues(w)
				got = fmt.Sprint(w)
			case "List.SortValues":
				l := col.List[[]int](Notation).MakeFromArray(sl)
				l.SortValues()
				got = fmt.Sprint(l.AsArray())
			default:
				ms := make([]map[string]int, m)
				for i := range ms {
					ms[i] = map[string]int{"k": sl[i][0]*1000 + i}
				}
				age.Sorter[map[string]int]().MakeWithRanker(func(a, b map[string]int) age.Rank { return cmp3(a["k"], b["k"]) }).SortValues(ms)
				for i := 0; i+1 < len(ms); i++ {
					if ms[i]["k"] >= ms[i+1]["k"] {
						got = fmt.Sprint(ms)
						wantStr = "strictly ascending by k"
						return
					}
				}
				got, wantStr = "", ""
			}
		})
		if pan {
			c.Violation("sort.uncomparable-elements/panicked", "sorting values of a type Go cannot compare with == ("+how+") panicked: "+msg, map[string]any{"input": fmt.Sprint(sl)})
			return
		}
		if got != wantStr {
			c.Violation("sort.uncomparable-elements/wrong-result", fmt.Sprintf("%s: %s, expected %s", how, got, wantStr), map[string]any{"input": fmt.Sprint(sl)})
			return
		}
	}
	c.Cover("default")
	c.Cover("uncomparable-element-types")
	c.Distinct(core.Mix(0xdef, core.HashStr(fmt.Sprint(vals, sl))))
}

func showAssocKV(c col.CatalogLike[int, int]) string {
	s := ""
	for _, a := range c.AsArray() {
		s += fmt.Sprintf("%d:%d ", a.GetKey(), a.GetValue())
	}
	return s
}

// RunC09Reused: one sorter instance serves several arrays in turn (sort,
// reverse, shuffle, and sorting the same array again after it was rearranged).
// Every call must have its documented effect on its own array, and an array
// handled earlier must stay exactly as that call left it: the sorter keeps
// nothing of the caller's.
func RunC09Reused(c *core.Ctx) {
	r := c.Rng
	type served struct {
		arr  []Tag
		snap []Tag
		vals []int
	}
	descending := r.Chance(1, 3)
	base := func(a, b Tag) age.Rank { return cmp3(a.Val, b.Val) }
	if descending {
		base = func(a, b Tag) age.Rank { return cmp3(b.Val, a.Val) }
	}
	sorter := age.Sorter[Tag]().MakeWithRanker(base)
	var done []*served
	var script []string
	cs := map[string]any{"descending": descending}
	lengths := []int{0, 1, 2, 3, 4, 5, 6, 7, 8, 9, 15, 16, 17, 18, 24, 31, 32, 33, 40, 64, 65, 100}
	fresh := func() *served {
		n := lengths[r.Intn(len(lengths))]
		s := &served{}
		for i := 0; i < n; i++ {
			v := r.Intn(n + 2)
			s.vals = append(s.vals, v)
			s.arr = append(s.arr, Tag{v, i})
		}
		return s
	}
	isPerm := func(s *served) bool {
		seen := make([]bool, len(s.vals))
		if len(s.arr) != len(s.vals) {
			return false
		}
		for _, t := range s.arr {
			if t.ID < 0 || t.ID >= len(s.vals) || seen[t.ID] || s.vals[t.ID] != t.Val {
				return false
			}
			seen[t.ID] = true
		}
		return true
	}
	steps := r.Range(2, 6)
	for k := 0; k < steps; k++ {
		var s *served
		if len(done) > 0 && r.Chance(1, 3) {
			s = done[r.Intn(len(done))] // an array the sorter has already handled
		} else {
			s = fresh()
			done = append(done, s)
		}
		op := []string{"sort", "sort", "reverse", "shuffle"}[r.Intn(4)]
		script = append(script, fmt.Sprintf("%s(n=%d)", op, len(s.arr)))
		cs["script"] = script
		before := append([]Tag{}, s.arr...)
		var pmsg string
		func() {
			defer func() {
				if e := recover(); e != nil {
					pmsg = fmt.Sprint(e)
				}
			}()
			switch op {
			case "sort":
				sorter.SortValues(s.arr)
			case "reverse":
				sorter.ReverseValues(s.arr)
			default:
				sorter.ShuffleValues(s.arr)
			}
		}()
		if pmsg != "" {
			c.Violation("sort.reused-sorter/panicked", op+" panicked on a sorter that had served other arrays: "+pmsg, cs)
			return
		}
		if !isPerm(s) {
			c.Violation("sort.reused-sorter/not-a-permutation", fmt.Sprintf("%s on a sorter that had served other arrays turned %v into %v", op, clipTags(before), clipTags(s.arr)), cs)
			return
		}
		switch op {
		case "sort":
			for i := 0; i+1 < len(s.arr); i++ {
				if base(s.arr[i], s.arr[i+1]) == age.GreaterRank {
					c.Violation("sort.reused-sorter/not-ascending", fmt.Sprintf("result %v: position %d ranks Greater than its successor", clipTags(s.arr), i+1), cs)
					return
				}
			}
		case "reverse":
			for i := range before {
				if s.arr[i] != before[len(before)-1-i] {
					c.Violation("sort.reused-sorter/reverse-not-exact", fmt.Sprintf("%v reversed is %v", clipTags(before), clipTags(s.arr)), cs)
					return
				}
			}
		}
		s.snap = append(s.snap[:0], s.arr...)
		for j, o := range done {
			if o == s {
				continue
			}
			for i := range o.snap {
				if o.arr[i] != o.snap[i] {
					c.Violation("sort.reused-sorter/earlier-array-altered", fmt.Sprintf("after %s of another array, array #%d (handled earlier by the same sorter) changed at position %d: was %v, is %v", op, j+1, i+1, clipTags(o.snap), clipTags(o.arr)), cs)
					return
				}
			}
		}
		c.Cover("reused-sorter." + op)
	}
	c.Distinct(core.HashStr(fmt.Sprint(script, descending, done[0].vals)))
	if c.WantSample("reused-sorter") {
		c.Sample("reused-sorter", cs)
	}
}

func clipTags(t []Tag) string {
	if len(t) > 24 {
		return fmt.Sprintf("%v… (n=%d)", t[:24], len(t))
	}
	return fmt.Sprint(t)
}

// RunC09Sequences: several sorting operations in a row on ONE Array, List and
// Catalog (natural order, a ranker of the caller's, reverse, shuffle); after
// each the collection must hold what the sorter makes of the equivalent Go
// array (for a shuffle: a permutation).  A collection that remembers "I am
// sorted" must forget it at the right moments.
func RunC09Sequences(c *core.Ctx) {
	r := c.Rng
	n := r.Range(2, 9)
	vals := make([]int, n)
	for i := range vals {
		vals[i] = r.Intn(2 * n) // a few duplicates
	}
	arr := col.Array[int](Notation).MakeFromArray(vals)
	lst := col.List[int](Notation).MakeFromArray(vals)
	cat := col.Catalog[int, int](Notation).Make()
	model := Clone(vals)
	keys := make([]int, 0, n) // catalog: distinct keys in order, value = -key
	seenK := map[int]bool{}
	for _, v := range vals {
		if !seenK[v] {
			seenK[v] = true
			keys = append(keys, v)
			cat.SetValue(v, -v)
		}
	}
	desc := func(a, b int) age.Rank { return cmp3(b, a) }
	descA := func(a, b col.AssociationLike[int, int]) age.Rank { return cmp3(b.GetKey(), a.GetKey()) }
	var script []string
	for step := 0; step < r.Range(2, 5); step++ {
		op := []string{"SortValues", "SortValuesWithRanker(descending)", "ReverseValues", "ShuffleValues", "SetValue"}[r.Intn(5)]
		script = append(script, op)
		cs := map[string]any{"values": fmt.Sprint(vals), "operations": script}
		pan, _, msg := Try(func() {
			switch op {
			case "SortValues":
				arr.SortValues()
				lst.SortValues()
				cat.SortValues()
				sort.Ints(model)
				sort.Ints(keys)
			case "SortValuesWithRanker(descending)":
				arr.SortValuesWithRanker(desc)
				lst.SortValuesWithRanker(desc)
				cat.SortValuesWithRanker(descA)
				sort.Sort(sort.Reverse(sort.IntSlice(model)))
				sort.Sort(sort.Reverse(sort.IntSlice(keys)))
			case "ReverseValues":
				arr.ReverseValues()
				lst.ReverseValues()
				cat.ReverseValues()
				model = reverse(model)
				keys = reverse(keys)
			case "ShuffleValues":
				arr.ShuffleValues()
				lst.ShuffleValues()
				cat.ShuffleValues()
				model, keys = nil, nil
			default:
				// an update in place (the catalog gets a new key at the end)
				v := 100 + step
				arr.SetValue(1, v)
				lst.SetValue(1, v)
				cat.SetValue(v, -v)
				if model != nil {
					model[0] = v
					keys = append(keys, v)
				}
			}
		})
		if pan {
			c.Violation("sort.sequence/panicked", op+" panicked: "+msg, cs)
			return
		}
		if model == nil {
			// after a shuffle only the multiset is known: re-read the arrangement
			model = arr.AsArray()
			if fmt.Sprint(sortedInts(model)) != fmt.Sprint(sortedInts(lst.AsArray())) {
				c.Violation("sort.sequence/shuffle-not-a-permutation", fmt.Sprintf("array %v list %v", model, lst.AsArray()), cs)
				return
			}
			lst = col.List[int](Notation).MakeFromArray(model)
			keys = cat.GetKeys().AsArray()
			continue
		}
		if fmt.Sprint(arr.AsArray()) != fmt.Sprint(model) || fmt.Sprint(lst.AsArray()) != fmt.Sprint(model) {
			c.Violation("sort.sequence/collection-differs", fmt.Sprintf("after %v: array %v list %v, the equivalent Go array %v", script, arr.AsArray(), lst.AsArray(), model), cs)
			return
		}
		if got := cat.GetKeys().AsArray(); fmt.Sprint(got) != fmt.Sprint(keys) {
			c.Violation("sort.sequence/catalog-differs", fmt.Sprintf("after %v: catalog keys %v, expected %v", script, got, keys), cs)
			return
		}
	}
	c.Cover("sort-sequences")
	c.Distinct(core.HashStr(fmt.Sprint(vals, script)))
}
