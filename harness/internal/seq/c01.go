package seq

import (
	"fmt"
	"strings"

	age "github.com/craterdog/go-collection-framework/v4/agent"
	col "github.com/craterdog/go-collection-framework/v4/collection"

	"verif/harness/internal/core"
)

// ---- C01: List and Array against the abstract ordinal-indexed sequence ----

// seqTarget is what Array and List have in common.
type seqTarget[V any] interface {
	col.Accessible[V]
	col.Sequential[V]
	col.Sortable[V]
	col.Updatable[V]
}

type c01run[V any] struct {
	c       *core.Ctx
	d       Dom[V]
	kind    string // "list" | "array"
	real    seqTarget[V]
	list    col.ListLike[V] // nil for arrays
	model   []V
	hist    []string
	mutated bool
	failed  bool
	watched []watch[V]
}

// watch is a sequence that crossed the API earlier (an operand, a constructor
// argument, a returned range) and must never change afterwards.
type watch[V any] struct {
	seq   col.Sequential[V]
	vals  []V
	label string
}

func (r *c01run[V]) watch(seq col.Sequential[V], vals []V, label string) {
	if seq == nil || SameRef(seq, r.real) {
		return
	}
	if len(r.watched) >= 8 {
		r.watched = r.watched[1:]
	}
	r.watched = append(r.watched, watch[V]{seq, Clone(vals), label})
}

func (r *c01run[V]) checkWatched(after string) {
	for _, w := range r.watched {
		if r.failed {
			return
		}
		var got []V
		pan, _, _ := Try(func() {
			if sp, ok := w.seq.(*Spy[V]); ok {
				got = sp.Vals
			} else {
				got = w.seq.AsArray()
			}
		})
		if pan || !SameAll(r.d, got, w.vals) {
			r.fail(after+"/aliased/"+w.label, "after %s: a sequence that crossed the API earlier (%s) changed: now %s, was %s", after, w.label, StrAll(r.d, got), StrAll(r.d, w.vals))
		}
	}
}

func (r *c01run[V]) log(format string, a ...any) { r.hist = append(r.hist, fmt.Sprintf(format, a...)) }

func (r *c01run[V]) fail(sig, format string, a ...any) {
	if r.failed {
		return
	}
	r.failed = true
	r.c.Violation(r.kind+"."+sig, fmt.Sprintf(format, a...)+"\nmodel="+StrAll(r.d, r.model),
		map[string]any{"element": r.d.Name, "kind": r.kind, "history": r.hist})
}

// observe compares every read path with the model.
func (r *c01run[V]) observe(after string) {
	if r.failed {
		return
	}
	n := len(r.model)
	pan, _, msg := Try(func() {
		if got := r.real.GetSize(); got != n {
			r.fail(after+"/state/size", "after %s: GetSize()=%d, model %d", after, got, n)
			return
		}
		if got := r.real.IsEmpty(); got != (n == 0) {
			r.fail(after+"/state/isempty", "after %s: IsEmpty()=%v, model size %d", after, got, n)
			return
		}
		arr := r.real.AsArray()
		if !SameAll(r.d, arr, r.model) {
			r.fail(after+"/state/array", "after %s: AsArray()=%s", after, StrAll(r.d, arr))
			return
		}
		it := r.real.GetIterator()
		if it.GetSize() != n || it.GetSlot() != 0 {
			r.fail(after+"/state/iterator", "after %s: fresh iterator size=%d slot=%d", after, it.GetSize(), it.GetSlot())
			return
		}
		fw, ok := WalkForward(it, n+2)
		if !ok || !SameAll(r.d, fw, r.model) {
			r.fail(after+"/state/iterate-forward", "after %s: forward iteration=%s", after, StrAll(r.d, fw))
			return
		}
		bw, ok := WalkBackward(it, n+2)
		if !ok || !SameAll(r.d, bw, r.model) {
			r.fail(after+"/state/iterate-backward", "after %s: backward iteration=%s", after, StrAll(r.d, bw))
			return
		}
		for i := 1; i <= n; i++ {
			if g := r.real.GetValue(i); !r.d.Same(g, r.model[i-1]) {
				r.fail(after+"/state/getvalue", "after %s: GetValue(%d)=%s", after, i, r.d.Str(g))
				return
			}
			if g := r.real.GetValue(-i); !r.d.Same(g, r.model[n-i]) {
				r.fail(after+"/state/getvalue-neg", "after %s: GetValue(%d)=%s", after, -i, r.d.Str(g))
				return
			}
		}
	})
	if pan {
		r.fail(after+"/state/read-panicked", "after %s: a read of the state panicked: %s", after, msg)
	}
}

// expectation of a call
type expect int

const (
	mustReturn expect = iota
	mustPanic
	either // the statement leaves it open: return with the model effect, or panic with no effect
)

// call runs op on the real collection and checks panic/no-panic against exp.
// It returns true when the call returned normally.
func (r *c01run[V]) call(name string, exp expect, op func()) bool {
	pan, noret, msg := Try(op)
	if noret {
		r.fail(name+"/no-return", "%s does not return: %s", name, msg)
		return false
	}
	if pan && exp == mustReturn {
		r.fail(name+"/unexpected-panic", "%s panicked (%s) although the arguments address the sequence", name, msg)
		return false
	}
	if !pan && exp == mustPanic {
		r.fail(name+"/missing-panic", "%s returned normally although index/slot/range lies outside the sequence", name)
		return false
	}
	return !pan
}

type operand[V any] struct {
	seq  col.Sequential[V]
	vals []V
	kind string
	spy  *Spy[V]
}

func (r *c01run[V]) genVals(rng *core.Rng, n int) []V {
	vs := make([]V, n)
	for i := range vs {
		vs[i] = r.d.Gen(rng)
	}
	return vs
}

// operandFor draws an operand sequence.  wantLen >= 0 asks for that length
// when the operand kind permits it.
func (r *c01run[V]) operandFor(rng *core.Rng, wantLen int) operand[V] {
	n := len(r.model)
	pick := rng.Intn(10)
	l := wantLen
	if l < 0 {
		l = rng.Intn(4)
	}
	switch {
	case pick == 0: // empty real list
		return operand[V]{seq: col.List[V](Notation).Make(), vals: nil, kind: "empty-list"}
	case pick == 1: // empty spy
		s := &Spy[V]{}
		return operand[V]{seq: s, vals: nil, kind: "empty-spy", spy: s}
	case pick == 2: // receiver itself
		return operand[V]{seq: r.real, vals: Clone(r.model), kind: "self"}
	case pick == 3 && n > 0: // a view of the receiver
		a := rng.Range(1, n)
		b := rng.Range(a, n)
		var view col.Sequential[V]
		pan, _, _ := Try(func() { view = r.real.GetValues(a, b) })
		if !pan && view != nil {
			return operand[V]{seq: view, vals: Clone(r.model[a-1 : b]), kind: "view"}
		}
		fallthrough
	case pick == 4: // an Array
		vs := r.genVals(rng, l)
		return operand[V]{seq: col.Array[V](Notation).MakeFromArray(vs), vals: vs, kind: "array"}
	case pick == 5: // spy with values
		vs := r.genVals(rng, l)
		s := &Spy[V]{Vals: Clone(vs)}
		return operand[V]{seq: s, vals: vs, kind: "spy", spy: s}
	default:
		vs := r.genVals(rng, l)
		return operand[V]{seq: col.List[V](Notation).MakeFromArray(vs), vals: vs, kind: "list"}
	}
}

func (r *c01run[V]) checkOperand(name string, o operand[V]) {
	if r.failed || o.kind == "self" {
		return
	}
	defer r.watch(o.seq, o.vals, "operand of "+name)
	pan, _, _ := Try(func() {
		var got []V
		if o.spy != nil {
			got = o.spy.Vals
		} else {
			got = o.seq.AsArray()
		}
		if !SameAll(r.d, got, o.vals) {
			r.fail(name+"/operand-changed", "%s changed its operand (%s): now %s, was %s", name, o.kind, StrAll(r.d, got), StrAll(r.d, o.vals))
		}
	})
	_ = pan
}

func (r *c01run[V]) distinct(op, argClass string, returned bool) {
	if !r.mutated {
		return
	}
	out := "ok"
	if !returned {
		out = "panic"
	}
	r.c.Cover(r.kind + "." + op + "." + out)
	r.c.Distinct(core.Mix(core.HashStr(r.d.Name+r.kind), core.HashStr(StrAll(r.d, r.model)), core.HashStr(op+"/"+argClass+"/"+out)))
}

// naturalRanker and friends are harness rankers (never repo code).
func (r *c01run[V]) rankers() map[string]age.RankingFunction[V] {
	if r.d.Less == nil {
		return nil
	}
	less := r.d.Less
	return map[string]age.RankingFunction[V]{
		"natural": func(a, b V) age.Rank {
			switch {
			case less(a, b):
				return age.LesserRank
			case less(b, a):
				return age.GreaterRank
			}
			return age.EqualRank
		},
		"reversed": func(a, b V) age.Rank {
			switch {
			case less(a, b):
				return age.GreaterRank
			case less(b, a):
				return age.LesserRank
			}
			return age.EqualRank
		},
	}
}

func (r *c01run[V]) step(rng *core.Rng) {
	n := len(r.model)
	before := Clone(r.model)
	type opfn func()
	ops := []string{"GetValue", "GetValues", "SetValue", "SetValues", "SortValues", "SortValuesWithRanker", "ReverseValues", "ShuffleValues"}
	weights := []int{3, 4, 4, 5, 1, 1, 1, 1}
	if r.list != nil {
		ops = append(ops, "InsertValue", "InsertValues", "AppendValue", "AppendValues", "RemoveValue", "RemoveValues", "RemoveAll",
			"GetIndex", "ContainsValue", "ContainsAny", "ContainsAll")
		weights = append(weights, 5, 6, 4, 4, 4, 5, 1, 3, 1, 2, 2)
	}
	op := ops[rng.Weighted(weights)]
	name := op
	returned := false
	argClass := ""
	switch op {
	case "GetValue":
		i := HostileIndex(rng, n)
		argClass = IndexClass(i, n)
		r.log("GetValue(%d)", i)
		p, ok := Norm(i, n)
		var got V
		exp := mustPanic
		if ok {
			exp = mustReturn
		}
		returned = r.call(name, exp, func() { got = r.real.GetValue(i) })
		if returned && ok && !r.d.Same(got, r.model[p-1]) {
			r.fail(name+"/wrong-value", "GetValue(%d)=%s, model %s", i, r.d.Str(got), r.d.Str(r.model[p-1]))
		}
	case "GetValues", "RemoveValues":
		f, l := HostileIndex(rng, n), HostileIndex(rng, n)
		argClass = IndexClass(f, n) + "," + IndexClass(l, n)
		r.log("%s(%d,%d)", op, f, l)
		pf, okf := Norm(f, n)
		pl, okl := Norm(l, n)
		exp := mustPanic
		var want []V
		if okf && okl {
			if pf <= pl {
				exp = mustReturn
				want = Clone(r.model[pf-1 : pl])
				argClass += "/proper"
			} else {
				exp = either
				want = []V{}
				argClass += "/inverted"
			}
		}
		var got col.Sequential[V]
		if op == "GetValues" {
			returned = r.call(name, exp, func() { got = r.real.GetValues(f, l) })
		} else {
			returned = r.call(name, exp, func() { got = r.list.RemoveValues(f, l) })
		}
		if returned && !r.failed {
			var arr []V
			pan, _, msg := Try(func() { arr = got.AsArray() })
			if pan || !SameAll(r.d, arr, want) {
				r.fail(name+"/wrong-values", "%s(%d,%d) returned %s %s, model %s", op, f, l, StrAll(r.d, arr), msg, StrAll(r.d, want))
			}
			r.watch(got, want, "result of "+op)
			if op == "RemoveValues" && len(want) > 0 {
				r.model = append(Clone(r.model[:pf-1]), r.model[pl:]...)
				r.mutated = true
			}
		}
	case "SetValue":
		i := HostileIndex(rng, n)
		v := r.d.Gen(rng)
		argClass = IndexClass(i, n)
		r.log("SetValue(%d,%s)", i, r.d.Str(v))
		p, ok := Norm(i, n)
		exp := mustPanic
		if ok {
			exp = mustReturn
		}
		returned = r.call(name, exp, func() { r.real.SetValue(i, v) })
		if returned && ok {
			r.model[p-1] = v
			r.mutated = true
		}
	case "SetValues":
		i := HostileIndex(rng, n)
		o := r.operandFor(rng, -1)
		argClass = IndexClass(i, n) + "/" + o.kind
		r.log("SetValues(%d,%s %s)", i, o.kind, StrAll(r.d, o.vals))
		p, ok := Norm(i, n)
		exp := mustPanic
		fits := ok && p+len(o.vals)-1 <= n
		if fits {
			exp = mustReturn
			if len(o.vals) == 0 {
				exp = either
			}
		}
		if len(o.vals) == 0 {
			argClass += "/empty"
		}
		returned = r.call(name, exp, func() { r.real.SetValues(i, o.seq) })
		if returned && fits {
			copy(r.model[p-1:], o.vals)
			if len(o.vals) > 0 {
				r.mutated = true
			}
		}
		r.checkOperand(name, o)
	case "InsertValue":
		slot := rng.Range(0, n+2)
		if rng.Chance(1, 12) {
			slot = n + 1 + rng.Intn(1000)
		}
		v := r.d.Gen(rng)
		argClass = fmt.Sprint(slot == 0, slot == n, slot > n)
		r.log("InsertValue(%d,%s)", slot, r.d.Str(v))
		exp := mustReturn
		if slot > n {
			exp = mustPanic
		}
		returned = r.call(name, exp, func() { r.list.InsertValue(uint(slot), v) })
		if returned && slot <= n {
			m := append(Clone(r.model[:slot]), v)
			r.model = append(m, before[slot:]...)
			r.mutated = true
		}
	case "InsertValues":
		slot := rng.Range(0, n+2)
		o := r.operandFor(rng, -1)
		argClass = fmt.Sprint(slot == 0, slot == n, slot > n) + "/" + o.kind
		if len(o.vals) == 0 {
			argClass += "/empty"
		}
		r.log("InsertValues(%d,%s %s)", slot, o.kind, StrAll(r.d, o.vals))
		exp := mustReturn
		if slot > n {
			exp = mustPanic
		} else if len(o.vals) == 0 {
			exp = either
		}
		returned = r.call(name, exp, func() { r.list.InsertValues(uint(slot), o.seq) })
		if returned && slot <= n {
			m := append(Clone(r.model[:slot]), o.vals...)
			r.model = append(m, before[slot:]...)
			if len(o.vals) > 0 {
				r.mutated = true
			}
		}
		r.checkOperand(name, o)
	case "AppendValue":
		v := r.d.Gen(rng)
		r.log("AppendValue(%s)", r.d.Str(v))
		returned = r.call(name, mustReturn, func() { r.list.AppendValue(v) })
		if returned {
			r.model = append(r.model, v)
			r.mutated = true
		}
	case "AppendValues":
		o := r.operandFor(rng, -1)
		argClass = o.kind
		r.log("AppendValues(%s %s)", o.kind, StrAll(r.d, o.vals))
		returned = r.call(name, mustReturn, func() { r.list.AppendValues(o.seq) })
		if returned {
			r.model = append(r.model, o.vals...)
			if len(o.vals) > 0 {
				r.mutated = true
			}
		}
		r.checkOperand(name, o)
	case "RemoveValue":
		i := HostileIndex(rng, n)
		argClass = IndexClass(i, n)
		r.log("RemoveValue(%d)", i)
		p, ok := Norm(i, n)
		exp := mustPanic
		if ok {
			exp = mustReturn
		}
		var got V
		returned = r.call(name, exp, func() { got = r.list.RemoveValue(i) })
		if returned && ok {
			if !r.d.Same(got, r.model[p-1]) {
				r.fail(name+"/wrong-value", "RemoveValue(%d) returned %s, model %s", i, r.d.Str(got), r.d.Str(r.model[p-1]))
			}
			r.model = append(Clone(r.model[:p-1]), before[p:]...)
			r.mutated = true
		}
	case "RemoveAll":
		r.log("RemoveAll()")
		returned = r.call(name, mustReturn, func() { r.list.RemoveAll() })
		if returned {
			r.model = []V{}
			r.mutated = true
		}
	case "GetIndex", "ContainsValue":
		var v V
		if n > 0 && rng.Chance(2, 3) {
			v = r.model[rng.Intn(n)]
		} else {
			v = r.d.Gen(rng)
		}
		want := 0
		for k, m := range r.model {
			if r.d.Eq(m, v) {
				want = k + 1
				break
			}
		}
		argClass = fmt.Sprint(want > 0)
		r.log("%s(%s)", op, r.d.Str(v))
		if op == "GetIndex" {
			var got int
			returned = r.call(name, mustReturn, func() { got = r.list.GetIndex(v) })
			if returned && got != want {
				r.fail(name+"/wrong-index", "GetIndex(%s)=%d, model %d", r.d.Str(v), got, want)
			}
		} else {
			var got bool
			returned = r.call(name, mustReturn, func() { got = r.list.ContainsValue(v) })
			if returned && got != (want > 0) {
				r.fail(name+"/wrong-answer", "ContainsValue(%s)=%v, model %v", r.d.Str(v), got, want > 0)
			}
		}
	case "ContainsAny", "ContainsAll":
		o := r.operandFor(rng, -1)
		argClass = o.kind
		r.log("%s(%s %s)", op, o.kind, StrAll(r.d, o.vals))
		anyIn, allIn := false, true
		for _, x := range o.vals {
			in := false
			for _, m := range r.model {
				if r.d.Eq(m, x) {
					in = true
					break
				}
			}
			anyIn = anyIn || in
			allIn = allIn && in
		}
		var got bool
		want := anyIn
		if op == "ContainsAll" {
			want = allIn
			returned = r.call(name, mustReturn, func() { got = r.list.ContainsAll(o.seq) })
		} else {
			returned = r.call(name, mustReturn, func() { got = r.list.ContainsAny(o.seq) })
		}
		argClass += fmt.Sprint("/", want)
		if returned && got != want {
			r.fail(name+"/wrong-answer", "%s=%v, model %v", op, got, want)
		}
		r.checkOperand(name, o)
	case "SortValues", "SortValuesWithRanker":
		rk := "default"
		var ranker age.RankingFunction[V]
		if op == "SortValuesWithRanker" {
			rs := r.rankers()
			if rs == nil {
				return
			}
			rk = []string{"natural", "reversed"}[rng.Intn(2)]
			ranker = rs[rk]
		}
		argClass = rk
		r.log("%s(%s)", op, rk)
		if ranker == nil {
			returned = r.call(name, mustReturn, func() { r.real.SortValues() })
		} else {
			returned = r.call(name, mustReturn, func() { r.real.SortValuesWithRanker(ranker) })
		}
		if returned && !r.failed {
			var arr []V
			Try(func() { arr = r.real.AsArray() })
			if !IsPerm(r.d, arr, r.model) {
				r.fail(name+"/not-a-permutation", "%s left %s", op, StrAll(r.d, arr))
			} else if r.d.Less != nil {
				for k := 0; k+1 < len(arr); k++ {
					bad := r.d.Less(arr[k+1], arr[k])
					if rk == "reversed" {
						bad = r.d.Less(arr[k], arr[k+1])
					}
					if bad {
						r.fail(name+"/not-sorted", "%s(%s) left %s", op, rk, StrAll(r.d, arr))
						break
					}
				}
			}
			if !r.failed {
				r.model = Clone(arr)
				if n > 1 {
					r.mutated = true
				}
			}
		}
	case "ReverseValues":
		r.log("ReverseValues()")
		returned = r.call(name, mustReturn, func() { r.real.ReverseValues() })
		if returned {
			for i, j := 0, n-1; i < j; i, j = i+1, j-1 {
				r.model[i], r.model[j] = r.model[j], r.model[i]
			}
			if n > 1 {
				r.mutated = true
			}
		}
	case "ShuffleValues":
		r.log("ShuffleValues()")
		returned = r.call(name, mustReturn, func() { r.real.ShuffleValues() })
		if returned && !r.failed {
			var arr []V
			Try(func() { arr = r.real.AsArray() })
			if !IsPerm(r.d, arr, r.model) {
				r.fail(name+"/not-a-permutation", "ShuffleValues left %s", StrAll(r.d, arr))
			} else {
				r.model = Clone(arr)
			}
		}
	}
	if r.failed {
		return
	}
	if !returned {
		// a panicking call must leave the sequence unchanged
		r.model = before
		r.observe(name + "/after-panic")
	} else {
		r.observe(name)
	}
	r.checkWatched(name)
	saveModel := r.model
	r.model = before
	r.distinct(op, argClass, returned)
	r.model = saveModel
}

// construct builds the initial collection through one of the constructors.
func (r *c01run[V]) construct(rng *core.Rng) bool {
	n := rng.Intn(7)
	if rng.Chance(1, 8) {
		n = rng.Range(7, 24)
	}
	if rng.Chance(1, 80) {
		n = rng.Range(25, 200)
	}
	vs := r.genVals(rng, n)
	how := rng.Intn(5)
	var zero V
	ok := true
	pan, noret, msg := Try(func() {
		if r.kind == "array" {
			A := col.Array[V](Notation)
			switch how {
			case 0:
				r.log("Array.Make(%d)", n)
				r.real = A.Make(uint(n))
				r.model = make([]V, n)
				for i := range r.model {
					r.model[i] = zero
				}
			case 1, 2:
				r.log("Array.MakeFromArray(%s)", StrAll(r.d, vs))
				r.real = A.MakeFromArray(vs)
				r.model = Clone(vs)
			case 3:
				r.log("Array.MakeFromSequence(list %s)", StrAll(r.d, vs))
				src := col.List[V](Notation).MakeFromArray(vs)
				r.real = A.MakeFromSequence(src)
				r.watch(src, vs, "constructor argument")
				r.model = Clone(vs)
			default:
				r.log("Array.MakeFromSequence(spy %s)", StrAll(r.d, vs))
				r.real = A.MakeFromSequence(&Spy[V]{Vals: Clone(vs)})
				r.model = Clone(vs)
			}
			return
		}
		L := col.List[V](Notation)
		switch how {
		case 0:
			r.log("List.Make()")
			r.list = L.Make()
			r.model = []V{}
		case 1:
			r.log("List.MakeFromArray(%s)", StrAll(r.d, vs))
			r.list = L.MakeFromArray(vs)
			r.model = Clone(vs)
		case 2:
			r.log("List.MakeFromSequence(array %s)", StrAll(r.d, vs))
			src := col.Array[V](Notation).MakeFromArray(vs)
			r.list = L.MakeFromSequence(src)
			r.watch(src, vs, "constructor argument")
			r.model = Clone(vs)
		case 3:
			r.log("List.MakeFromSequence(spy %s)", StrAll(r.d, vs))
			r.list = L.MakeFromSequence(&Spy[V]{Vals: Clone(vs)})
			r.model = Clone(vs)
		default:
			k := rng.Intn(n + 1)
			a, b := L.MakeFromArray(vs[:k]), L.MakeFromArray(vs[k:])
			alias := rng.Chance(1, 4)
			if alias {
				r.log("List.Concatenate(a=%s, a)", StrAll(r.d, vs[:k]))
				r.list = L.Concatenate(a, a)
				r.model = append(Clone(vs[:k]), vs[:k]...)
			} else {
				r.log("List.Concatenate(%s, %s)", StrAll(r.d, vs[:k]), StrAll(r.d, vs[k:]))
				r.list = L.Concatenate(a, b)
				r.model = Clone(vs)
			}
			// operands must be left alone
			if !SameAll(r.d, a.AsArray(), vs[:k]) || !SameAll(r.d, b.AsArray(), vs[k:]) {
				ok = false
			}
			r.watch(a, vs[:k], "operand of Concatenate")
			if !alias {
				r.watch(b, vs[k:], "operand of Concatenate")
			}
		}
		r.real = r.list
	})
	if pan || noret {
		r.fail("construct/panicked", "constructor panicked: %s", msg)
		return false
	}
	if !ok {
		r.fail("Concatenate/operand-changed", "Concatenate changed an operand")
		return false
	}
	r.c.Cover(r.kind + ".construct." + fmt.Sprint(how))
	r.observe("construct")
	return !r.failed
}

// RunC01History executes one generated history.
func RunC01History[V any](c *core.Ctx, d Dom[V], kind string) {
	rng := c.Rng
	r := &c01run[V]{c: c, d: d, kind: kind}
	if !r.construct(rng) {
		return
	}
	steps := rng.Range(1, 40)
	for s := 0; s < steps && !r.failed; s++ {
		r.step(rng)
	}
	if !r.failed && c.WantSample(kind+"/"+strings.SplitN(d.Name, "/", 2)[0]) {
		c.Sample(kind+"/"+strings.SplitN(d.Name, "/", 2)[0], map[string]any{"history": r.hist, "final": StrAll(d, r.model)})
	}
}

// ---- reproducers of the recorded C01 findings ----

func ReproInsertSlot() (bool, string) {
	l := col.List[int](Notation).MakeFromArray([]int{1, 2})
	pan, _, _ := Try(func() { l.InsertValue(4, 9) })
	pan2, _, _ := Try(func() { l.InsertValues(5, col.List[int](Notation).MakeFromArray([]int{7})) })
	if !pan || !pan2 {
		return true, fmt.Sprintf("InsertValue(4,9)/InsertValues(5,[7]) on [1 2] returned normally; list is now %v", l.AsArray())
	}
	return false, "a slot beyond the end panics"
}

func ReproInsertEmpty() (bool, string) {
	l := col.List[int](Notation).MakeFromArray([]int{1, 2, 3})
	_, noret, _ := Try(func() { l.InsertValues(1, &Spy[int]{}) })
	if noret {
		return true, "InsertValues(1, <empty>) on [1 2 3] keeps re-enumerating its operand (does not return)"
	}
	return false, fmt.Sprintf("returned; list=%v", l.AsArray())
}

func ReproSetValuesWrap() (bool, string) {
	a := col.Array[int](Notation).MakeFromArray([]int{1, 2, 3, 4, 5})
	vals := col.Array[int](Notation).MakeFromArray([]int{9, 9, 9, 9, 9, 9, 9})
	pan, _, _ := Try(func() { a.SetValues(-5, vals) })
	if !pan {
		return true, fmt.Sprintf("SetValues(-5, 7 values) on 5 elements returned normally; array is now %v", a.AsArray())
	}
	return false, "a range that runs off the end panics"
}
