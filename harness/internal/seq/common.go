// Package seq holds the lock-step reference-model monitors for the sequential
// collection kinds.  Models are written from the property statements in plain
// Go; they never call repository code to compute an expectation.
package seq

import (
	"fmt"
	"math"
	"reflect"
	"sort"
	"strings"

	age "github.com/craterdog/go-collection-framework/v4/agent"
	cdc "github.com/craterdog/go-collection-framework/v4/cdcn"
	col "github.com/craterdog/go-collection-framework/v4/collection"

	"verif/harness/internal/core"
)

// Notation shared by the sequential monitors (single goroutine per worker).
var Notation = cdc.Notation().Make()

// SpyLimit is the number of operand re-enumerations after which a spy operand
// declares that the call it was passed to is not making progress.
const SpyLimit = 10000

type spyPanic struct{ calls int }

// Try runs f and reports whether it panicked.  A spy-limit panic is reported
// separately: it means "the call does not return".
func Try(f func()) (panicked bool, noReturn bool, msg string) {
	defer func() {
		if r := recover(); r != nil {
			panicked = true
			if _, ok := r.(spyPanic); ok {
				noReturn = true
				msg = "operand re-enumerated more than 10000 times"
				return
			}
			msg = fmt.Sprint(r)
			if len(msg) > 160 {
				msg = msg[:160]
			}
		}
	}()
	f()
	return
}

// Dom describes one element type: generation, Go-level equality, bit-exact
// sameness, natural order and printing.
type Dom[V any] struct {
	Name string
	Gen  func(r *core.Rng) V
	Eq   func(a, b V) bool // equality in the sense of the statement (Go == / element-wise)
	Same func(a, b V) bool // bit-exact (nothing altered)
	Less func(a, b V) bool // natural order; nil when none is defined
	Str  func(v V) string
}

func IntDom(n int) Dom[int] {
	return Dom[int]{
		Name: fmt.Sprintf("int/%d", n),
		Gen: func(r *core.Rng) int {
			if n > 1000 {
				return int(int64(r.Uint64()))
			}
			return r.Intn(n) - n/3
		},
		Eq:   func(a, b int) bool { return a == b },
		Same: func(a, b int) bool { return a == b },
		Less: func(a, b int) bool { return a < b },
		Str:  func(v int) string { return fmt.Sprint(v) },
	}
}

var letters = []string{"", "a", "b", "ab", "ba", "abc", "é", "z", "A", "\xff", "a\x00", "zz"}

func StringDom(n int) Dom[string] {
	return Dom[string]{
		Name: fmt.Sprintf("string/%d", n),
		Gen: func(r *core.Rng) string {
			if n > len(letters) {
				b := make([]byte, r.Intn(6))
				for i := range b {
					b[i] = byte('a' + r.Intn(4))
				}
				return string(b)
			}
			return letters[r.Intn(n)]
		},
		Eq:   func(a, b string) bool { return a == b },
		Same: func(a, b string) bool { return a == b },
		Less: func(a, b string) bool { return a < b },
		Str:  func(v string) string { return fmt.Sprintf("%q", v) },
	}
}

var floats = []float64{0, math.Copysign(0, -1), 1, -1, 0.5, 1e6, -1e-7, math.Inf(1), math.Inf(-1), math.MaxFloat64, math.SmallestNonzeroFloat64, 2.5}

func FloatDom(n int) Dom[float64] {
	return Dom[float64]{
		Name: fmt.Sprintf("float64/%d", n),
		Gen: func(r *core.Rng) float64 {
			if n > len(floats) {
				return math.Round(r.Float64()*20-10) / 2
			}
			return floats[r.Intn(n)]
		},
		Eq:   func(a, b float64) bool { return a == b },
		Same: func(a, b float64) bool { return math.Float64bits(a) == math.Float64bits(b) },
		Less: func(a, b float64) bool { return a < b },
		Str:  func(v float64) string { return fmt.Sprintf("%v#%x", v, math.Float64bits(v)>>63) },
	}
}

func sliceLess(a, b []int) bool {
	for i := 0; i < len(a) && i < len(b); i++ {
		if a[i] != b[i] {
			return a[i] < b[i]
		}
	}
	return len(a) < len(b)
}

func SliceDom(n int) Dom[[]int] {
	return Dom[[]int]{
		Name: fmt.Sprintf("[]int/%d", n),
		Gen: func(r *core.Rng) []int {
			l := r.Intn(3)
			s := make([]int, l)
			for i := range s {
				s[i] = r.Intn(n)
			}
			return s
		},
		Eq: func(a, b []int) bool {
			if len(a) != len(b) {
				return false
			}
			for i := range a {
				if a[i] != b[i] {
					return false
				}
			}
			return true
		},
		Same: func(a, b []int) bool { return reflect.DeepEqual(a, b) },
		Less: sliceLess,
		Str:  func(v []int) string { return fmt.Sprint(v) },
	}
}

// AnyDom: mode 0 = ints only, 1 = strings only, 2 = mixed dynamic types
// (int, string, bool, nil) for which no natural order is asserted, 3 = like 2
// plus the same small numbers as int64, uint8 and float64: equal in value,
// different as values of type `any` (searching must tell them apart).
func AnyDom(mode, n int) Dom[any] {
	d := Dom[any]{Name: fmt.Sprintf("any/%d/%d", mode, n)}
	d.Gen = func(r *core.Rng) any {
		switch mode {
		case 0:
			return r.Intn(n)
		case 1:
			return letters[r.Intn(min(n, len(letters)))]
		default:
			if mode == 3 && r.Chance(1, 2) {
				k := r.Intn(n)
				switch r.Intn(3) {
				case 0:
					return int64(k)
				case 1:
					return uint8(k)
				default:
					return float64(k)
				}
			}
			switch r.Intn(4) {
			case 0:
				return r.Intn(n)
			case 1:
				return letters[r.Intn(min(n, len(letters)))]
			case 2:
				return r.Bool()
			default:
				return nil
			}
		}
	}
	d.Eq = func(a, b any) bool { return a == b }
	d.Same = func(a, b any) bool { return a == b }
	switch mode {
	case 0:
		// nil (the zero value of `any`, e.g. in a fresh Array) ranks first
		d.Less = func(a, b any) bool {
			if a == nil || b == nil {
				return a == nil && b != nil
			}
			return a.(int) < b.(int)
		}
	case 1:
		d.Less = func(a, b any) bool {
			if a == nil || b == nil {
				return a == nil && b != nil
			}
			return a.(string) < b.(string)
		}
	}
	d.Str = func(v any) string { return fmt.Sprintf("%#v", v) }
	return d
}

// StrAll prints a slice of values.
func StrAll[V any](d Dom[V], vs []V) string {
	var sb strings.Builder
	sb.WriteByte('[')
	for i, v := range vs {
		if i > 0 {
			sb.WriteByte(' ')
		}
		sb.WriteString(d.Str(v))
	}
	sb.WriteByte(']')
	return sb.String()
}

// SameAll: bit-exact equality of two slices.
func SameAll[V any](d Dom[V], a, b []V) bool {
	if len(a) != len(b) {
		return false
	}
	for i := range a {
		if !d.Same(a[i], b[i]) {
			return false
		}
	}
	return true
}

// IsPerm: b is a permutation of a (multiset equality under Same).
func IsPerm[V any](d Dom[V], a, b []V) bool {
	if len(a) != len(b) {
		return false
	}
	sa := make([]string, len(a))
	sb := make([]string, len(b))
	for i := range a {
		sa[i] = d.Str(a[i])
		sb[i] = d.Str(b[i])
	}
	sort.Strings(sa)
	sort.Strings(sb)
	for i := range sa {
		if sa[i] != sb[i] {
			return false
		}
	}
	return true
}

// Clone copies a slice (never returns nil).
func Clone[V any](a []V) []V {
	out := make([]V, len(a))
	copy(out, a)
	return out
}

// Spy is a Sequential[V] that counts how often it is enumerated and gives up
// with a sentinel panic when a callee keeps asking.
type Spy[V any] struct {
	Vals  []V
	Calls int
}

func (s *Spy[V]) tick() {
	s.Calls++
	if s.Calls > SpyLimit {
		panic(spyPanic{s.Calls})
	}
}
func (s *Spy[V]) IsEmpty() bool { s.tick(); return len(s.Vals) == 0 }
func (s *Spy[V]) GetSize() int  { s.tick(); return len(s.Vals) }
func (s *Spy[V]) AsArray() []V  { s.tick(); return Clone(s.Vals) }
func (s *Spy[V]) GetIterator() age.IteratorLike[V] {
	s.tick()
	return age.Iterator[V]().MakeFromArray(Clone(s.Vals))
}

var _ col.Sequential[int] = (*Spy[int])(nil)

// WalkForward / WalkBackward enumerate through an iterator with a step bound.
func WalkForward[V any](it age.IteratorLike[V], bound int) ([]V, bool) {
	var out []V
	it.ToStart()
	for it.HasNext() {
		out = append(out, it.GetNext())
		if len(out) > bound {
			return out, false
		}
	}
	return out, true
}

func WalkBackward[V any](it age.IteratorLike[V], bound int) ([]V, bool) {
	var out []V
	it.ToEnd()
	for it.HasPrevious() {
		out = append(out, it.GetPrevious())
		if len(out) > bound {
			return out, false
		}
	}
	// reverse to front-to-back order
	for i, j := 0, len(out)-1; i < j; i, j = i+1, j-1 {
		out[i], out[j] = out[j], out[i]
	}
	return out, true
}

// IndexClass abstracts an index relative to a size.
func IndexClass(i, size int) string {
	switch {
	case i == 0:
		return "zero"
	case i > size:
		return "over"
	case i < -size:
		return "under"
	case i == 1 || i == -size:
		return "first"
	case i == size || i == -1:
		return "last"
	case i > 0:
		return "pos"
	default:
		return "neg"
	}
}

// HostileIndex draws an index from -size-2..size+2 with extra mass on the
// boundaries.
func HostileIndex(r *core.Rng, size int) int {
	switch r.Intn(10) {
	case 0:
		return 0
	case 1:
		return 1
	case 2:
		return -1
	case 3:
		return size
	case 4:
		return -size
	case 5:
		return size + 1
	case 6:
		return -size - 1
	default:
		return r.Range(-size-2, size+2)
	}
}

// Norm converts an ordinal index to a 1-based position, ok=false when it lies
// outside the sequence.
func Norm(i, size int) (int, bool) {
	switch {
	case i == 0 || i > size || i < -size:
		return 0, false
	case i < 0:
		return size + 1 + i, true
	default:
		return i, true
	}
}

// SameRef reports whether two values are the same object (pointer identity, or
// the same backing array and length for slice-typed collections).
func SameRef(a, b any) bool {
	va, vb := reflect.ValueOf(a), reflect.ValueOf(b)
	if !va.IsValid() || !vb.IsValid() || va.Type() != vb.Type() {
		return false
	}
	switch va.Kind() {
	case reflect.Pointer, reflect.Map, reflect.Chan, reflect.Func, reflect.UnsafePointer:
		return va.Pointer() == vb.Pointer()
	case reflect.Slice:
		return va.Len() == vb.Len() && (va.Len() == 0 || va.Pointer() == vb.Pointer())
	}
	return false
}
