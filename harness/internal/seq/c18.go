package seq

import (
	"fmt"
	"reflect"
	"sort"
	"sync"

	mod "github.com/craterdog/go-collection-framework/v4"
	col "github.com/craterdog/go-collection-framework/v4/collection"

	"verif/harness/internal/core"
)

// ---- C18: Go arrays and maps crossing the API are copied, never aliased ----

type aliasProbe struct {
	name string
	// run performs the probe for the given size and returns a discrepancy.
	run func(n int) string
}

func ints(n, base int) []int {
	vs := make([]int, n)
	for i := range vs {
		vs[i] = base + i
	}
	return vs
}

func show[V any](s col.Sequential[V]) string { return fmt.Sprint(s.AsArray()) }

func showAssoc(s col.Sequential[col.AssociationLike[int, int]]) string {
	var out []string
	for _, a := range s.AsArray() {
		out = append(out, fmt.Sprintf("%d:%d", a.GetKey(), a.GetValue()))
	}
	return fmt.Sprint(out)
}

func showAssocSorted(s col.Sequential[col.AssociationLike[int, int]]) string {
	var out []string
	for _, a := range s.AsArray() {
		out = append(out, fmt.Sprintf("%d:%d", a.GetKey(), a.GetValue()))
	}
	sort.Strings(out)
	return fmt.Sprint(out)
}

func assocs(n int) []col.AssociationLike[int, int] {
	as := make([]col.AssociationLike[int, int], n)
	for i := range as {
		as[i] = col.Association[int, int](Notation).Make(i+1, 10+i)
	}
	return as
}

// scribble overwrites every position of a Go array.
func scribble(vs []int) {
	for i := range vs {
		vs[i] = -7 - i
	}
}

// scribbleSeq modifies a returned sequence through whatever mutating aspect it offers.
func scribbleSeq[V any](s col.Sequential[V], junk V) {
	n := s.GetSize()
	if u, ok := s.(col.Updatable[V]); ok {
		for i := 1; i <= n; i++ {
			u.SetValue(i, junk)
		}
	}
	if e, ok := s.(col.Expandable[V]); ok {
		e.AppendValue(junk)
		if n > 0 {
			e.RemoveValue(1)
		}
	}
	if so, ok := s.(col.Sortable[V]); ok {
		so.ReverseValues()
	}
}

// intColl is a collection of ints under test: how to make it from a Go array /
// a sequence, and how to mutate it.
type intColl struct {
	kind     string
	fromArr  func(vs []int) col.Sequential[int]
	fromSeq  func(s col.Sequential[int]) col.Sequential[int]
	modArr   func(vs []int) col.Sequential[int] // module-level constructor
	mutators func(c col.Sequential[int]) []func()
}

func intColls() []intColl {
	mut := func(c col.Sequential[int]) []func() {
		var fs []func()
		if u, ok := c.(col.Updatable[int]); ok {
			fs = append(fs, func() {
				for i := 1; i <= c.GetSize(); i++ {
					u.SetValue(i, 900+i)
				}
			})
		}
		if e, ok := c.(col.Expandable[int]); ok {
			fs = append(fs, func() { e.AppendValue(901) }, func() { e.InsertValue(0, 902) }, func() { e.RemoveAll() })
		}
		if f, ok := c.(col.Flexible[int]); ok {
			fs = append(fs, func() { f.AddValue(-5) }, func() { f.RemoveAll() })
		}
		if s, ok := c.(col.StackLike[int]); ok {
			fs = append(fs, func() {
				if s.GetSize() > 0 {
					s.RemoveTop()
				}
			}, func() { s.AddValue(903) }, func() { s.RemoveAll() })
		}
		if q, ok := c.(col.QueueLike[int]); ok {
			fs = append(fs, func() {
				if q.GetSize() > 0 {
					q.RemoveHead()
				}
			}, func() { q.AddValue(904) }, func() { q.RemoveAll() })
		}
		if so, ok := c.(col.Sortable[int]); ok {
			fs = append(fs, func() { so.ReverseValues() })
		}
		return fs
	}
	return []intColl{
		{"Array", func(vs []int) col.Sequential[int] { return col.Array[int](Notation).MakeFromArray(vs) },
			func(s col.Sequential[int]) col.Sequential[int] { return col.Array[int](Notation).MakeFromSequence(s) },
			func(vs []int) col.Sequential[int] { return mod.Array[int](vs) }, mut},
		{"List", func(vs []int) col.Sequential[int] { return col.List[int](Notation).MakeFromArray(vs) },
			func(s col.Sequential[int]) col.Sequential[int] { return col.List[int](Notation).MakeFromSequence(s) },
			func(vs []int) col.Sequential[int] { return mod.List[int](vs) }, mut},
		{"Set", func(vs []int) col.Sequential[int] { return col.Set[int](Notation).MakeFromArray(vs) },
			func(s col.Sequential[int]) col.Sequential[int] { return col.Set[int](Notation).MakeFromSequence(s) },
			func(vs []int) col.Sequential[int] { return mod.Set[int](vs) }, mut},
		{"Stack", func(vs []int) col.Sequential[int] { return col.Stack[int](Notation).MakeFromArray(vs) },
			func(s col.Sequential[int]) col.Sequential[int] { return col.Stack[int](Notation).MakeFromSequence(s) },
			func(vs []int) col.Sequential[int] { return mod.Stack[int](vs) }, mut},
		{"Queue", func(vs []int) col.Sequential[int] { return col.Queue[int](Notation).MakeFromArray(vs) },
			func(s col.Sequential[int]) col.Sequential[int] { return col.Queue[int](Notation).MakeFromSequence(s) },
			func(vs []int) col.Sequential[int] { return mod.Queue[int](vs) }, mut},
	}
}

type assocColl struct {
	kind    string
	fromArr func(as []col.AssociationLike[int, int]) assocLike
	fromMap func(m map[int]int) assocLike
	fromSeq func(s col.Sequential[col.AssociationLike[int, int]]) assocLike
	modArr  func(as []col.AssociationLike[int, int]) assocLike
	modMap  func(m map[int]int) assocLike
}

type assocLike interface {
	col.Associative[int, int]
	col.Sequential[col.AssociationLike[int, int]]
}

func assocColls() []assocColl {
	C := col.Catalog[int, int](Notation)
	M := col.Map[int, int](Notation)
	return []assocColl{
		{"Catalog", func(as []col.AssociationLike[int, int]) assocLike { return C.MakeFromArray(as) },
			func(m map[int]int) assocLike { return C.MakeFromMap(m) },
			func(s col.Sequential[col.AssociationLike[int, int]]) assocLike { return C.MakeFromSequence(s) },
			func(as []col.AssociationLike[int, int]) assocLike { return mod.Catalog[int, int](as) },
			func(m map[int]int) assocLike { return mod.Catalog[int, int](m) }},
		{"Map", func(as []col.AssociationLike[int, int]) assocLike { return M.MakeFromArray(as) },
			func(m map[int]int) assocLike { return M.MakeFromMap(m) },
			func(s col.Sequential[col.AssociationLike[int, int]]) assocLike { return M.MakeFromSequence(s) },
			func(as []col.AssociationLike[int, int]) assocLike { return mod.Map[int, int](as) },
			func(m map[int]int) assocLike { return mod.Map[int, int](m) }},
	}
}

func buildProbes() []aliasProbe {
	var ps []aliasProbe
	add := func(name string, run func(n int) string) { ps = append(ps, aliasProbe{name, run}) }

	for _, k := range intColls() {
		k := k
		for _, lvl := range []string{"class", "module"} {
			lvl := lvl
			add(k.kind+".MakeFromArray("+lvl+")/mutate-argument", func(n int) string {
				if lvl == "module" && n == 0 {
					return "" // the module constructors treat an empty array as "no argument"
				}
				vs := ints(n, 1)
				mk := k.fromArr
				if lvl == "module" {
					mk = k.modArr
				}
				c := mk(vs)
				before := show(c)
				scribble(vs)
				if show(c) != before {
					return fmt.Sprintf("writing the caller's array changed the collection: %s -> %s", before, show(c))
				}
				// and the other way round
				vs2 := ints(n, 1)
				c2 := mk(vs2)
				for _, m := range k.mutators(c2) {
					m()
				}
				if fmt.Sprint(vs2) != fmt.Sprint(ints(n, 1)) {
					return fmt.Sprintf("mutating the collection changed the caller's array: %v", vs2)
				}
				return ""
			})
		}
		add(k.kind+".MakeFromSequence/mutate-argument", func(n int) string {
			for _, src := range []string{"list", "array"} {
				var s col.Sequential[int]
				if src == "list" {
					s = col.List[int](Notation).MakeFromArray(ints(n, 1))
				} else {
					s = col.Array[int](Notation).MakeFromArray(ints(n, 1))
				}
				c := k.fromSeq(s)
				before := show(c)
				scribbleSeq(s, -9)
				if show(c) != before {
					return fmt.Sprintf("modifying the %s passed to the constructor changed the collection: %s -> %s", src, before, show(c))
				}
				s2 := col.List[int](Notation).MakeFromArray(ints(n, 1))
				c2 := k.fromSeq(s2)
				for _, m := range k.mutators(c2) {
					m()
				}
				if show(s2) != fmt.Sprint(ints(n, 1)) {
					return fmt.Sprintf("mutating the collection changed the sequence passed to the constructor: %s", show(s2))
				}
			}
			return ""
		})
		add(k.kind+".AsArray/mutate-result-and-collection", func(n int) string {
			c := k.fromArr(ints(n, 1))
			before := show(c)
			arr := c.AsArray()
			scribble(arr)
			if show(c) != before {
				return fmt.Sprintf("writing the array returned by AsArray changed the collection: %s -> %s", before, show(c))
			}
			// every mutator, each against a fresh result
			for i := range k.mutators(c) {
				c := k.fromArr(ints(n, 1))
				arr := c.AsArray()
				want := fmt.Sprint(arr)
				k.mutators(c)[i]()
				if fmt.Sprint(arr) != want {
					return fmt.Sprintf("mutating the collection (mutator %d) changed an array returned earlier by AsArray: %s -> %v", i, want, arr)
				}
				it := c.GetIterator()
				_ = it
			}
			return ""
		})
		add(k.kind+".GetValues/mutate-result-and-collection", func(n int) string {
			c := k.fromArr(ints(n, 1))
			acc, ok := c.(col.Accessible[int])
			if !ok || n == 0 {
				return ""
			}
			for f := 1; f <= n; f++ {
				for l := f; l <= n; l++ {
					c := k.fromArr(ints(n, 1))
					acc := c.(col.Accessible[int])
					before := show(c)
					r := acc.GetValues(f, l)
					scribbleSeq(r, -9)
					if show(c) != before {
						return fmt.Sprintf("modifying the result of GetValues(%d,%d) changed the collection: %s -> %s", f, l, before, show(c))
					}
					r2 := acc.GetValues(f, l)
					want := show(r2)
					for _, m := range k.mutators(c) {
						m()
					}
					if show(r2) != want {
						return fmt.Sprintf("mutating the collection changed the earlier result of GetValues(%d,%d): %s -> %s", f, l, want, show(r2))
					}
				}
			}
			_ = acc
			return ""
		})
	}
	// List.RemoveValues result
	add("List.RemoveValues/mutate-result-and-collection", func(n int) string {
		for f := 1; f <= n; f++ {
			for l := f; l <= n; l++ {
				c := col.List[int](Notation).MakeFromArray(ints(n, 1))
				r := c.RemoveValues(f, l)
				before := show(c)
				scribbleSeq(r, -9)
				if show(c) != before {
					return fmt.Sprintf("modifying the result of RemoveValues(%d,%d) changed the list: %s -> %s", f, l, before, show(c))
				}
				c2 := col.List[int](Notation).MakeFromArray(ints(n, 1))
				r2 := c2.RemoveValues(f, l)
				want := show(r2)
				c2.AppendValue(5)
				if c2.GetSize() > 0 {
					c2.SetValue(1, 6)
				}
				c2.RemoveAll()
				if show(r2) != want {
					return fmt.Sprintf("mutating the list changed the earlier result of RemoveValues: %s -> %s", want, show(r2))
				}
			}
		}
		return ""
	})

	for _, k := range assocColls() {
		k := k
		for _, lvl := range []string{"class", "module"} {
			lvl := lvl
			add(k.kind+".MakeFromArray("+lvl+")/mutate-argument", func(n int) string {
				if lvl == "module" && n == 0 {
					return ""
				}
				as := assocs(n)
				mk := k.fromArr
				if lvl == "module" {
					mk = k.modArr
				}
				c := mk(as)
				before := showAssocSorted(c)
				for i := range as {
					as[i] = col.Association[int, int](Notation).Make(77+i, 78)
				}
				if showAssocSorted(c) != before {
					return fmt.Sprintf("writing the caller's array changed the collection: %s -> %s", before, showAssocSorted(c))
				}
				as2 := assocs(n)
				keep := append([]col.AssociationLike[int, int]{}, as2...)
				c2 := mk(as2)
				c2.SetValue(500, 1)
				c2.RemoveValue(1)
				c2.RemoveAll()
				for i := range as2 {
					if as2[i] != keep[i] {
						return "mutating the collection changed the caller's array"
					}
				}
				return ""
			})
			add(k.kind+".MakeFromMap("+lvl+")/mutate-argument", func(n int) string {
				if lvl == "module" && n == 0 {
					return ""
				}
				m := map[int]int{}
				for i := 0; i < n; i++ {
					m[i+1] = 10 + i
				}
				mk := k.fromMap
				if lvl == "module" {
					mk = k.modMap
				}
				c := mk(m)
				before := showAssocSorted(c)
				for kk := range m {
					m[kk] = -1
				}
				m[999] = 5
				delete(m, 1)
				if showAssocSorted(c) != before {
					return fmt.Sprintf("writing the caller's map changed the collection: %s -> %s", before, showAssocSorted(c))
				}
				m2 := map[int]int{}
				for i := 0; i < n; i++ {
					m2[i+1] = 10 + i
				}
				want := fmt.Sprint(m2)
				c2 := mk(m2)
				c2.SetValue(1, 99)
				c2.SetValue(500, 1)
				c2.RemoveValue(2)
				c2.RemoveAll()
				if fmt.Sprint(m2) != want {
					return fmt.Sprintf("mutating the collection changed the caller's map: %v", m2)
				}
				return ""
			})
		}
		add(k.kind+".MakeFromSequence/mutate-argument", func(n int) string {
			src := col.List[col.AssociationLike[int, int]](Notation).MakeFromArray(assocs(n))
			c := k.fromSeq(src)
			before := showAssocSorted(c)
			src.AppendValue(col.Association[int, int](Notation).Make(400, 4))
			if n > 0 {
				src.RemoveValue(1)
			}
			if showAssocSorted(c) != before {
				return fmt.Sprintf("modifying the sequence passed to the constructor changed the collection: %s -> %s", before, showAssocSorted(c))
			}
			src2 := col.Catalog[int, int](Notation).MakeFromArray(assocs(n))
			c2 := k.fromSeq(src2)
			want := showAssoc(src2)
			c2.SetValue(1, 99)
			c2.SetValue(500, 1)
			c2.RemoveAll()
			if showAssoc(src2) != want {
				return fmt.Sprintf("mutating the collection changed the catalog passed to the constructor: %s -> %s", want, showAssoc(src2))
			}
			return ""
		})
		add(k.kind+".AsArray/mutate-result-and-collection", func(n int) string {
			c := k.fromArr(assocs(n))
			before := showAssocSorted(c)
			arr := c.AsArray()
			for i := range arr {
				arr[i] = col.Association[int, int](Notation).Make(77+i, 78)
			}
			if showAssocSorted(c) != before {
				return fmt.Sprintf("writing the array returned by AsArray changed the collection: %s -> %s", before, showAssocSorted(c))
			}
			arr2 := c.AsArray()
			keys := make([]int, len(arr2))
			for i, a := range arr2 {
				keys[i] = a.GetKey()
			}
			c.SetValue(500, 1)
			c.RemoveValue(1)
			c.RemoveAll()
			for i, a := range arr2 {
				if a == nil || a.GetKey() != keys[i] {
					return "mutating the collection changed an array returned earlier by AsArray"
				}
			}
			return ""
		})
		add(k.kind+".GetKeys/mutate-result-and-collection", func(n int) string {
			c := k.fromArr(assocs(n))
			before := showAssocSorted(c)
			ks := c.GetKeys()
			keysBefore := fmt.Sprint(sortedInts(ks.AsArray()))
			scribbleSeq(ks, -9)
			if showAssocSorted(c) != before {
				return fmt.Sprintf("modifying the result of GetKeys changed the collection: %s -> %s", before, showAssocSorted(c))
			}
			// ... including what GetKeys itself answers next time
			if again := fmt.Sprint(sortedInts(c.GetKeys().AsArray())); again != keysBefore {
				return fmt.Sprintf("modifying the result of GetKeys changed what GetKeys returns afterwards: %s -> %s", keysBefore, again)
			}
			ks2 := c.GetKeys()
			want := show(ks2)
			c.SetValue(500, 1)
			c.RemoveValue(1)
			c.RemoveAll()
			if show(ks2) != want {
				return fmt.Sprintf("mutating the collection changed the earlier result of GetKeys: %s -> %s", want, show(ks2))
			}
			return ""
		})
		add(k.kind+".GetValues+RemoveValues/mutate-result-and-collection", func(n int) string {
			for _, op := range []string{"GetValues", "RemoveValues"} {
				c := k.fromArr(assocs(n))
				keys := col.List[int](Notation).MakeFromArray(ints(n+1, 1))
				var r col.Sequential[int]
				if op == "GetValues" {
					r = c.GetValues(keys)
				} else {
					r = c.RemoveValues(keys)
				}
				before := showAssocSorted(c)
				scribbleSeq(r, -9)
				if showAssocSorted(c) != before {
					return fmt.Sprintf("modifying the result of %s changed the collection: %s -> %s", op, before, showAssocSorted(c))
				}
				if show(keys) != fmt.Sprint(ints(n+1, 1)) {
					return op + " changed its key sequence"
				}
				c2 := k.fromArr(assocs(n))
				var r2 col.Sequential[int]
				if op == "GetValues" {
					r2 = c2.GetValues(keys)
				} else {
					r2 = c2.RemoveValues(keys)
				}
				want := show(r2)
				c2.SetValue(1, 99)
				c2.SetValue(500, 1)
				c2.RemoveAll()
				if show(r2) != want {
					return fmt.Sprintf("mutating the collection changed the earlier result of %s: %s -> %s", op, want, show(r2))
				}
			}
			return ""
		})
	}

	// ---- self-operand bulk operations behave like the same operation on a copy ----
	L := col.List[int](Notation)
	add("List.AppendValues(self)", func(n int) string {
		a, b := L.MakeFromArray(ints(n, 1)), L.MakeFromArray(ints(n, 1))
		a.AppendValues(a)
		b.AppendValues(L.MakeFromArray(ints(n, 1)))
		if show(a) != show(b) {
			return fmt.Sprintf("self: %s, copy: %s", show(a), show(b))
		}
		return ""
	})
	add("List.InsertValues(k,self)", func(n int) string {
		for k := 0; k <= n; k++ {
			a, b := L.MakeFromArray(ints(n, 1)), L.MakeFromArray(ints(n, 1))
			a.InsertValues(uint(k), a)
			b.InsertValues(uint(k), L.MakeFromArray(ints(n, 1)))
			if show(a) != show(b) {
				return fmt.Sprintf("slot %d: self: %s, copy: %s", k, show(a), show(b))
			}
		}
		return ""
	})
	add("List.InsertValues(k,view-of-self)", func(n int) string {
		for k := 0; k <= n; k++ {
			for f := 1; f <= n; f++ {
				a, b := L.MakeFromArray(ints(n, 1)), L.MakeFromArray(ints(n, 1))
				a.InsertValues(uint(k), a.GetValues(f, n))
				b.InsertValues(uint(k), L.MakeFromArray(ints(n, 1)[f-1:]))
				if show(a) != show(b) {
					return fmt.Sprintf("slot %d view %d..%d: self: %s, copy: %s", k, f, n, show(a), show(b))
				}
			}
		}
		return ""
	})
	add("List.SetValues(1,self)+Array.SetValues(1,self)", func(n int) string {
		if n == 0 {
			return ""
		}
		a := L.MakeFromArray(ints(n, 1))
		a.ReverseValues()
		a.SetValues(1, a)
		want := fmt.Sprint(reverse(ints(n, 1)))
		if show(a) != want {
			return fmt.Sprintf("List: %s, expected %s", show(a), want)
		}
		arr := col.Array[int](Notation).MakeFromArray(reverse(ints(n, 1)))
		arr.SetValues(1, arr)
		if show(arr) != want {
			return fmt.Sprintf("Array: %s, expected %s", show(arr), want)
		}
		// a view of itself written one position further
		if n >= 2 {
			a2, b2 := L.MakeFromArray(ints(n, 1)), L.MakeFromArray(ints(n, 1))
			a2.SetValues(2, a2.GetValues(1, n-1))
			b2.SetValues(2, L.MakeFromArray(ints(n-1, 1)))
			if show(a2) != show(b2) {
				return fmt.Sprintf("shifted view: self %s, copy %s", show(a2), show(b2))
			}
			a3 := col.Array[int](Notation).MakeFromArray(ints(n, 1))
			a3.SetValues(2, a3.GetValues(1, n-1))
			if show(a3) != show(b2) {
				return fmt.Sprintf("Array shifted view: self %s, copy %s", show(a3), show(b2))
			}
		}
		return ""
	})
	add("Set.AddValues(self)+RemoveValues(self)", func(n int) string {
		S := col.Set[int](Notation)
		a := S.MakeFromArray(ints(n, 1))
		a.AddValues(a)
		if show(a) != fmt.Sprint(ints(n, 1)) {
			return "AddValues(self): " + show(a)
		}
		a.RemoveValues(a)
		if a.GetSize() != 0 {
			return "RemoveValues(self) left " + show(a)
		}
		b := S.MakeFromArray(ints(n, 1))
		if n >= 2 {
			b.RemoveValues(b.GetValues(2, n))
			if show(b) != "[1]" {
				return "RemoveValues(view of self) left " + show(b)
			}
		}
		return ""
	})
	add("Catalog+Map.RemoveValues(self.GetKeys())", func(n int) string {
		for _, k := range assocColls() {
			c := k.fromArr(assocs(n))
			r := c.RemoveValues(c.GetKeys())
			if c.GetSize() != 0 || show(r) != fmt.Sprint(ints(n, 10)) && k.kind == "Catalog" {
				return fmt.Sprintf("%s: left %s returned %s", k.kind, showAssoc(c), show(r))
			}
			c2 := k.fromArr(assocs(n))
			v := c2.GetValues(c2.GetKeys())
			if v.GetSize() != n {
				return k.kind + ": GetValues(self.GetKeys()) size " + fmt.Sprint(v.GetSize())
			}
		}
		return ""
	})
	add("Stack+Queue.MakeFromSequence(self)", func(n int) string {
		s := col.Stack[int](Notation).MakeFromArray(ints(n, 1))
		s2 := col.Stack[int](Notation).MakeFromSequence(s)
		if show(s2) != show(s) {
			return "stack copy differs"
		}
		if n > 0 {
			s2.RemoveTop()
			if show(s) != fmt.Sprint(ints(n, 1)) {
				return "popping a stack built from another stack changed the source"
			}
		}
		q := col.Queue[int](Notation).MakeFromArray(ints(n, 1))
		q2 := col.Queue[int](Notation).MakeFromSequence(q)
		if n > 0 {
			q2.RemoveHead()
			if show(q) != fmt.Sprint(ints(n, 1)) {
				return "removing from a queue built from another queue changed the source"
			}
		}
		return ""
	})
	// class functions: the sequence they return shares nothing with the operands.  Changes
	// that work in place come first: a change of size makes a collection re-allocate, which
	// would hide shared storage.
	inPlace := func(l col.ListLike[int]) []func() string {
		var fs []func() string
		if l.GetSize() > 0 {
			fs = append(fs,
				func() string { l.SetValue(1, -31); return "SetValue(1)" },
				func() string { l.SetValue(-1, -32); return "SetValue(-1)" },
				func() string { l.ReverseValues(); return "ReverseValues" },
				func() string { l.SortValues(); return "SortValues" })
		}
		return append(fs,
			func() string { l.AppendValue(-33); return "AppendValue" },
			func() string { l.RemoveValue(1); return "RemoveValue(1)" })
	}
	add("List.Concatenate/mutate-result-and-operands", func(n int) string {
		L := col.List[int](Notation)
		for _, m := range []int{0, 1, n} {
			for _, swap := range []bool{false, true} {
				mkA := func() col.ListLike[int] { return L.MakeFromArray(ints(n, 1)) }
				mkB := func() col.ListLike[int] { return L.MakeFromArray(ints(m, 50)) }
				if swap {
					mkA, mkB = mkB, mkA
				}
				a, b := mkA(), mkB()
				wa, wb := show(a), show(b)
				r := L.Concatenate(a, b)
				for _, f := range inPlace(r) {
					what := f()
					if show(a) != wa || show(b) != wb {
						return fmt.Sprintf("%s on Concatenate(%s, %s) changed an operand: %s %s", what, wa, wb, show(a), show(b))
					}
				}
				for _, which := range []int{0, 1} {
					a, b := mkA(), mkB()
					r := L.Concatenate(a, b)
					want := show(r)
					op := a
					if which == 1 {
						op = b
					}
					for _, f := range inPlace(op) {
						what := f()
						if show(r) != want {
							return fmt.Sprintf("%s on operand %d of Concatenate(%s, %s) changed the result: %s", what, which+1, wa, wb, show(r))
						}
					}
				}
			}
		}
		return ""
	})
	add("Catalog.Merge+Extract/mutate-result-and-operands", func(n int) string {
		C := col.Catalog[int, int](Notation)
		for _, m := range []int{0, 1, n} {
			mkA := func() col.CatalogLike[int, int] { return C.MakeFromArray(assocs(n)) }
			mkB := func() col.CatalogLike[int, int] {
				b := C.Make()
				for i := 0; i < m; i++ {
					b.SetValue(n+i, 70+i) // key n is shared with a when n > 0
				}
				return b
			}
			poke := func(c col.CatalogLike[int, int]) []func() string {
				var fs []func() string
				for _, k := range c.GetKeys().AsArray() {
					k := k
					fs = append(fs, func() string { c.SetValue(k, -41); return fmt.Sprintf("SetValue(%d) (existing key)", k) })
				}
				return append(fs,
					func() string { c.ReverseValues(); return "ReverseValues" },
					func() string { c.SetValue(-99, -42); return "SetValue(new key)" },
					func() string { c.RemoveAll(); return "RemoveAll" })
			}
			a, b := mkA(), mkB()
			wa, wb := showAssoc(a), showAssoc(b)
			r := C.Merge(a, b)
			for _, f := range poke(r) {
				what := f()
				if showAssoc(a) != wa || showAssoc(b) != wb {
					return fmt.Sprintf("%s on Merge(%s, %s) changed an operand: %s %s", what, wa, wb, showAssoc(a), showAssoc(b))
				}
			}
			for _, which := range []int{0, 1} {
				a, b := mkA(), mkB()
				r := C.Merge(a, b)
				want := showAssoc(r)
				op := a
				if which == 1 {
					op = b
				}
				for _, f := range poke(op) {
					what := f()
					if showAssoc(r) != want {
						return fmt.Sprintf("%s on operand %d of Merge(%s, %s) changed the result: %s", what, which+1, wa, wb, showAssoc(r))
					}
				}
			}
			// Extract
			a = mkA()
			keys := col.List[int](Notation).MakeFromArray(ints(n, 1))
			e := C.Extract(a, keys)
			for _, f := range poke(e) {
				what := f()
				if showAssoc(a) != wa || show(keys) != fmt.Sprint(ints(n, 1)) {
					return fmt.Sprintf("%s on Extract(%s, keys) changed an operand: %s %s", what, wa, showAssoc(a), show(keys))
				}
			}
			a = mkA()
			e = C.Extract(a, keys)
			want := showAssoc(e)
			for _, f := range poke(a) {
				what := f()
				if showAssoc(e) != want {
					return fmt.Sprintf("%s on the catalog after Extract changed the result: %s", what, showAssoc(e))
				}
			}
		}
		return ""
	})
	// Fork and Split return the sequence of their output queues while a helper goroutine of
	// the library goes on using those queues: what the caller does to the returned sequence
	// must not reach the helper
	add("Queue.Fork+Split/mutate-returned-sequence", func(n int) string {
		Q := col.Queue[int](Notation)
		for _, shape := range []string{"Fork", "Split"} {
			in := Q.MakeWithCapacity(uint(n + 2))
			var wg sync.WaitGroup
			var outs col.Sequential[col.QueueLike[int]]
			if shape == "Fork" {
				outs = Q.Fork(&wg, in, 2)
			} else {
				outs = Q.Split(&wg, in, 2)
			}
			orig := outs.AsArray()
			spare := Q.MakeWithCapacity(uint(n + 2))
			if l, ok := outs.(col.ListLike[col.QueueLike[int]]); ok {
				l.SetValue(1, spare)
				l.ReverseValues()
			} else if u, ok := outs.(col.Updatable[col.QueueLike[int]]); ok {
				u.SetValue(1, spare)
			}
			for i := 1; i <= n; i++ {
				in.AddValue(i)
			}
			in.CloseQueue()
			wg.Wait()
			for k, o := range orig {
				var want []int
				for i := 1; i <= n; i++ {
					if shape == "Fork" || (i-1)%2 == k {
						want = append(want, i)
					}
				}
				if got := o.AsArray(); fmt.Sprint(got) != fmt.Sprint(want) && !(len(got) == 0 && len(want) == 0) {
					return fmt.Sprintf("%s: after the caller changed the returned sequence, output %d received %v instead of %v (the spare queue the caller put into the sequence holds %v)", shape, k+1, got, want, spare.AsArray())
				}
			}
		}
		return ""
	})
	// Join keeps reading from the input queues it was given: what the caller does to the
	// sequence it passed (recycling the list for something else) must not reach the helper
	add("Queue.Join/mutate-argument-sequence", func(n int) string {
		Q := col.Queue[int](Notation)
		a, b := Q.MakeWithCapacity(uint(n+2)), Q.MakeWithCapacity(uint(n+2))
		inputs := col.List[col.QueueLike[int]](Notation).MakeFromArray([]col.QueueLike[int]{a, b})
		var wg sync.WaitGroup
		out := Q.Join(&wg, inputs)
		x, y := Q.MakeWithCapacity(uint(n+2)), Q.MakeWithCapacity(uint(n+2))
		inputs.SetValue(1, x)
		inputs.SetValue(2, y)
		inputs.ReverseValues()
		var want []int
		for i := 1; i <= n; i++ {
			a.AddValue(i)
			b.AddValue(100 + i)
			want = append(want, i, 100+i)
			x.AddValue(-i)
			y.AddValue(-100 - i)
		}
		a.CloseQueue()
		b.CloseQueue()
		x.CloseQueue()
		y.CloseQueue()
		var got []int
		for {
			v, ok := out.RemoveHead()
			if !ok {
				break
			}
			got = append(got, v)
		}
		wg.Wait()
		if fmt.Sprint(got) != fmt.Sprint(want) {
			return fmt.Sprintf("after the caller recycled the list it had passed to Join, the output received %v instead of %v", got, want)
		}
		return ""
	})
	return ps
}

func sortedInts(vs []int) []int {
	out := append([]int{}, vs...)
	sort.Ints(out)
	return out
}

func reverse(vs []int) []int {
	out := make([]int, len(vs))
	for i, v := range vs {
		out[len(vs)-1-i] = v
	}
	return out
}

var c18probes = buildProbes()

// sizes 0..5 in the quick tier, 0..12 in the thorough tier
func c18Sizes(tier string) int { return core.Tiered(tier, 6, 13) }

func C18Cases(tier string) int { return len(c18probes) * c18Sizes(tier) }

func RunC18(c *core.Ctx, idx int) {
	p := c18probes[idx/c18Sizes(c.Tier)]
	n := idx % c18Sizes(c.Tier)
	var d string
	pan, noret, msg := Try(func() { d = p.run(n) })
	if pan || noret {
		c.Violation("alias."+p.name+"/panicked", "probe panicked: "+msg, map[string]any{"probe": p.name, "size": n})
		return
	}
	if d != "" {
		c.Violation("alias."+p.name, d, map[string]any{"probe": p.name, "size": n})
		return
	}
	c.Cover(p.name)
	c.Distinct(core.Mix(core.HashStr(p.name), uint64(n)))
	if c.WantSample("probe") {
		c.Sample("probe", map[string]any{"probe": p.name, "size": n})
	}
}

// ---- completeness of the table, by reflection over the exported API ----

// c18known lists every method that accepts or returns a Go array, Go map or
// sequence and says where it is probed (C18 probe, or the property that covers
// its independence in depth).
var c18known = map[string]string{
	"MakeFromArray": "C18", "MakeFromMap": "C18", "MakeFromSequence": "C18", "AsArray": "C18", "GetValues": "C18",
	"GetKeys": "C18", "RemoveValues": "C18", "SetValues": "C18 (self operand) / C01", "InsertValues": "C18 (self operand) / C01",
	"AppendValues": "C18 (self operand) / C01", "AddValues": "C18 (self operand) / C02",
	"ContainsAny": "read-only operand (C01/C02 check operand purity)", "ContainsAll": "read-only operand (C01/C02)",
	"Concatenate": "C18 / C16", "Merge": "C18 / C16", "Extract": "C18 / C16", "And": "C15", "Or": "C15", "Sans": "C15", "Xor": "C15",
	"Fork": "C18 (returned sequence) / C06", "Split": "C18 (returned sequence) / C06", "Join": "C06",
	"MakeWithCollator": "no storage", "GetIterator": "C17", "Make": "returns a fresh collection", "MakeWithCapacity": "returns a fresh collection",
}

func carriesStorage(t reflect.Type) bool {
	switch t.Kind() {
	case reflect.Slice, reflect.Map, reflect.Array:
		return true
	case reflect.Interface, reflect.Pointer:
		if _, ok := t.MethodByName("AsArray"); ok {
			return true
		}
	}
	return false
}

// C18Completeness returns the API methods with storage in their signature that
// the table does not know.
func C18Completeness() (unknown []string, inspected int) {
	objs := []any{
		col.Array[int](Notation), col.List[int](Notation), col.Set[int](Notation), col.Stack[int](Notation), col.Queue[int](Notation),
		col.Catalog[int, int](Notation), col.Map[int, int](Notation),
		col.Array[int](Notation).Make(1), col.List[int](Notation).Make(), col.Set[int](Notation).Make(), col.Stack[int](Notation).Make(),
		col.Queue[int](Notation).Make(), col.Catalog[int, int](Notation).Make(), col.Map[int, int](Notation).Make(),
	}
	seen := map[string]bool{}
	for _, o := range objs {
		t := reflect.TypeOf(o)
		for i := 0; i < t.NumMethod(); i++ {
			m := t.Method(i)
			storage := false
			for j := 1; j < m.Type.NumIn(); j++ {
				storage = storage || carriesStorage(m.Type.In(j))
			}
			for j := 0; j < m.Type.NumOut(); j++ {
				storage = storage || carriesStorage(m.Type.Out(j))
			}
			inspected++
			if storage && c18known[m.Name] == "" && !seen[m.Name] {
				seen[m.Name] = true
				unknown = append(unknown, t.String()+"."+m.Name)
			}
		}
	}
	sort.Strings(unknown)
	return
}

// ReproForkSequence: the sequence Fork returns is changed by the caller.
func ReproForkSequence() (bool, string) {
	for _, p := range c18probes {
		if p.name == "Queue.Fork+Split/mutate-returned-sequence" {
			for try := 0; try < 20; try++ {
				if d := p.run(4); d != "" {
					return true, d
				}
			}
			return false, "changing the sequence returned by Fork / Split does not reach the helper goroutine"
		}
	}
	return false, "probe not found"
}
