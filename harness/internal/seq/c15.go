package seq

import (
	"fmt"

	col "github.com/craterdog/go-collection-framework/v4/collection"

	"verif/harness/internal/core"
)

// ---- C15: set algebra ----

type algebra[V any] struct {
	c     *core.Ctx
	d     Dom[V]
	rank  func(a, b V) int
	rname string
	mk    func(vs []V) col.SetLike[V]
	fresh func(r *core.Rng) V // a value used to mutate sets afterwards
	// derive: B is the result of this operation on (A, set of y); shared: both
	// operands are built with this one collator object
	derive string
	shared *HCollator[V]
}

// expected computes the mathematical result on (sorted, de-duplicated) class
// representatives.
func (a *algebra[V]) norm(vs []V) []V {
	var out []V
	for _, v := range vs {
		pos, found := len(out), false
		for i, o := range out {
			k := a.rank(v, o)
			if k == 0 {
				found = true
				break
			}
			if k < 0 {
				pos = i
				break
			}
		}
		if !found {
			out = append(out, v)
			copy(out[pos+1:], out[pos:])
			out[pos] = v
		}
	}
	return out
}

func (a *algebra[V]) has(set []V, v V) bool {
	for _, s := range set {
		if a.rank(s, v) == 0 {
			return true
		}
	}
	return false
}

func (a *algebra[V]) expected(op string, x, y []V) []V {
	var out []V
	switch op {
	case "And":
		for _, v := range x {
			if a.has(y, v) {
				out = append(out, v)
			}
		}
	case "Or":
		out = append(append(out, x...), y...)
	case "Sans":
		for _, v := range x {
			if !a.has(y, v) {
				out = append(out, v)
			}
		}
	case "Xor":
		for _, v := range x {
			if !a.has(y, v) {
				out = append(out, v)
			}
		}
		for _, v := range y {
			if !a.has(x, v) {
				out = append(out, v)
			}
		}
	}
	return a.norm(out)
}

// sameSet: rank-equal element-wise, strictly ascending, and every element of
// got is (bit-exactly) one of the given sources.
func (a *algebra[V]) sameSet(got, want []V, sources ...[]V) string {
	if len(got) != len(want) {
		return "size"
	}
	for i := range got {
		if a.rank(got[i], want[i]) != 0 {
			return "members"
		}
		if i > 0 && a.rank(got[i-1], got[i]) >= 0 {
			return "not-strictly-ascending"
		}
		ok := false
		for _, src := range sources {
			for _, s := range src {
				if a.d.Same(s, got[i]) {
					ok = true
				}
			}
		}
		if !ok {
			return "invented-value"
		}
	}
	return ""
}

func (a *algebra[V]) check(x, y []V, aliased bool, rng *core.Rng) {
	cs := map[string]any{"element": a.d.Name, "collator": a.rname, "A": StrAll(a.d, x), "B": StrAll(a.d, y), "aliased": aliased}
	if a.derive != "" {
		cs["B"] = a.derive + "(A, " + StrAll(a.d, y) + ")"
	}
	if a.shared != nil {
		cs["collator"] = a.rname + " (one collator object shared by both operands)"
	}
	fail := func(sig, format string, args ...any) {
		a.c.Violation("setalgebra."+sig, fmt.Sprintf(format, args...), cs)
	}
	S := col.Set[V](Notation)
	for _, op := range []string{"And", "Or", "Sans", "Xor"} {
		var A, B, R col.SetLike[V]
		var ra, rb, rr []V
		pan, noret, msg := Try(func() {
			A = a.mk(x)
			B = A
			if !aliased {
				B = a.mk(y)
				// B may itself be the result of an earlier operation on A (it then carries
				// whatever a result inherits from its first operand, e.g. the collator object)
				switch a.derive {
				case "And":
					B = S.And(A, B)
				case "Or":
					B = S.Or(A, B)
				case "Sans":
					B = S.Sans(A, B)
				case "Xor":
					B = S.Xor(A, B)
				}
			}
			ra, rb = A.AsArray(), B.AsArray()
			switch op {
			case "And":
				R = S.And(A, B)
			case "Or":
				R = S.Or(A, B)
			case "Sans":
				R = S.Sans(A, B)
			case "Xor":
				R = S.Xor(A, B)
			}
			rr = R.AsArray()
		})
		if pan || noret {
			fail(op+"/panicked", "%s(A,B) panicked: %s", op, msg)
			return
		}
		want := a.expected(op, ra, rb)
		if why := a.sameSet(rr, want, ra, rb); why != "" {
			fail(op+"/wrong-result/"+why, "%s(A,B)=%s, expected %s", op, StrAll(a.d, rr), StrAll(a.d, want))
			return
		}
		if R == A || R == B {
			fail(op+"/result-is-operand", "%s(A,B) returned one of its operands instead of a new set", op)
			return
		}
		pan, _, msg = Try(func() {
			if !SameAll(a.d, A.AsArray(), ra) || !SameAll(a.d, B.AsArray(), rb) {
				fail(op+"/operand-changed", "%s(A,B) changed an operand: A=%s B=%s", op, StrAll(a.d, A.AsArray()), StrAll(a.d, B.AsArray()))
				return
			}
			// independence: mutate the result, then each operand
			nv := a.fresh(rng)
			R.AddValue(nv)
			if len(rr) > 0 {
				R.RemoveValue(rr[0])
			}
			if !SameAll(a.d, A.AsArray(), ra) || !SameAll(a.d, B.AsArray(), rb) {
				fail(op+"/shared-state", "changing the result of %s(A,B) changed an operand: A=%s B=%s", op, StrAll(a.d, A.AsArray()), StrAll(a.d, B.AsArray()))
				return
			}
			after := R.AsArray()
			A.AddValue(nv)
			if len(ra) > 0 {
				A.RemoveValue(ra[len(ra)-1])
			}
			B.RemoveAll()
			if !SameAll(a.d, R.AsArray(), after) {
				fail(op+"/shared-state", "changing an operand after %s(A,B) changed the result: %s", op, StrAll(a.d, R.AsArray()))
			}
		})
		if pan {
			fail(op+"/panicked", "mutating after %s panicked: %s", op, msg)
			return
		}
		a.c.Distinct(core.Mix(core.HashStr(a.d.Name+a.rname+op), core.HashStr(StrAll(a.d, ra)), core.HashStr(StrAll(a.d, rb)), core.HashStr(fmt.Sprint(aliased))))
	}
	a.c.Cover("pairs")
	if aliased {
		a.c.Cover("aliased-pairs")
	}
	if a.c.WantSample("setalgebra/" + a.d.Name + "/" + a.rname) {
		a.c.Sample("setalgebra/"+a.d.Name+"/"+a.rname, cs)
	}
}

func makeAlgebra[V any](c *core.Ctx, d Dom[V], collator string, coarse func(a, b V) int, fresh func(r *core.Rng) V) *algebra[V] {
	a := &algebra[V]{c: c, d: d, rname: collator, fresh: fresh}
	nat := natural(d)
	switch collator {
	case "default":
		a.rank = nat
		a.mk = func(vs []V) col.SetLike[V] { return col.Set[V](Notation).MakeFromArray(vs) }
		return a
	case "reversed":
		a.rank = func(x, y V) int { return -nat(x, y) }
	case "coarse":
		a.rank = coarse
	}
	a.mk = func(vs []V) col.SetLike[V] {
		hc := &HCollator[V]{Name: collator, Rank: a.rank}
		if a.shared != nil {
			hc = a.shared
		}
		s := col.Set[V](Notation).MakeWithCollator(hc)
		for _, v := range vs {
			s.AddValue(v)
		}
		return s
	}
	return a
}

// RunC15Exhaustive: idx in 0..4095 selects the pair of subsets (idx>>6, idx&63)
// of a 6-value universe; the pair (A,A) is additionally run aliased.
func RunC15Exhaustive[V any](c *core.Ctx, idx int, d Dom[V], universe []V, collator string, coarse func(a, b V) int, fresh func(r *core.Rng) V) {
	a := makeAlgebra(c, d, collator, coarse, fresh)
	sub := func(mask int) []V {
		var out []V
		// insertion order is varied with the case index so that construction order differs
		for i := 0; i < 6; i++ {
			j := (i*5 + idx) % 6
			if mask>>j&1 == 1 {
				out = append(out, universe[j])
			}
		}
		return out
	}
	ma, mb := idx>>6, idx&63
	a.check(sub(ma), sub(mb), false, c.Rng)
	if ma == mb {
		a.check(sub(ma), sub(ma), true, c.Rng)
	}
}

func RunC15Random[V any](c *core.Ctx, d Dom[V], collator string, coarse func(a, b V) int, fresh func(r *core.Rng) V) {
	a := makeAlgebra(c, d, collator, coarse, fresh)
	r := c.Rng
	gen := func() []V {
		n := r.Intn(12)
		vs := make([]V, n)
		for i := range vs {
			vs[i] = d.Gen(r)
		}
		return vs
	}
	x := gen()
	var y []V
	switch r.Intn(5) {
	case 0: // subset
		for _, v := range x {
			if r.Bool() {
				y = append(y, v)
			}
		}
	case 1: // superset
		y = append(Clone(x), gen()...)
	case 2: // equal content, independent set
		y = Clone(x)
	default:
		y = gen()
	}
	switch r.Intn(4) {
	case 0:
		a.derive = []string{"And", "Or", "Sans", "Xor"}[r.Intn(4)]
		c.Cover("operand-derived-from-the-other")
	case 1:
		if collator != "default" {
			a.shared = &HCollator[V]{Name: collator, Rank: a.rank}
			c.Cover("operands-sharing-one-collator-object")
		}
	}
	a.check(x, y, r.Chance(1, 10), r)
}
