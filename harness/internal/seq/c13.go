package seq

import (
	"fmt"
	"time"

	col "github.com/craterdog/go-collection-framework/v4/collection"

	"verif/harness/internal/core"
)

// ---- C13: Stack is LIFO and bounded ----

type c13run struct {
	Run
	real  col.StackLike[int]
	model []int // top first
	cap   int
	muted bool
	next  int
	// a collection that served as the source of MakeFromSequence must stay what it
	// was, and changing it in place afterwards must not reach the stack
	src     col.Sequential[int]
	srcKind string
	srcWant []int
}

// poke changes the source collection in place (whatever its kind offers).
func (r *c13run) poke(rng *core.Rng) string {
	n := len(r.srcWant)
	switch s := r.src.(type) {
	case col.ListLike[int]:
		switch {
		case n > 0 && rng.Chance(1, 2):
			i := rng.Range(1, n)
			r.next++
			s.SetValue(i, -r.next)
			r.srcWant[i-1] = -r.next
			return "SetValue"
		case n > 1 && rng.Chance(1, 2):
			s.ReverseValues()
			for i, j := 0, n-1; i < j; i, j = i+1, j-1 {
				r.srcWant[i], r.srcWant[j] = r.srcWant[j], r.srcWant[i]
			}
			return "ReverseValues"
		default:
			r.next++
			s.AppendValue(-r.next)
			r.srcWant = append(r.srcWant, -r.next)
			return "AppendValue"
		}
	case col.ArrayLike[int]:
		if n == 0 {
			return ""
		}
		if n > 1 && rng.Chance(1, 2) {
			s.ReverseValues()
			for i, j := 0, n-1; i < j; i, j = i+1, j-1 {
				r.srcWant[i], r.srcWant[j] = r.srcWant[j], r.srcWant[i]
			}
			return "ReverseValues"
		}
		i := rng.Range(1, n)
		r.next++
		s.SetValue(i, -r.next)
		r.srcWant[i-1] = -r.next
		return "SetValue"
	case col.StackLike[int]:
		if n > 0 && rng.Chance(1, 2) {
			s.RemoveTop()
			r.srcWant = r.srcWant[1:]
			return "RemoveTop"
		}
		if n < int(s.GetCapacity()) {
			r.next++
			s.AddValue(-r.next)
			r.srcWant = append([]int{-r.next}, r.srcWant...)
			return "AddValue"
		}
	}
	return ""
}

func (r *c13run) observe(after string) {
	r.Guard(after, func() {
		n := len(r.model)
		if g := r.real.GetSize(); g != n {
			r.Fail(after+"/state/size", "after %s: GetSize()=%d, model %d", after, g, n)
			return
		}
		capa := int(r.real.GetCapacity())
		if r.cap >= 0 && capa != r.cap {
			r.Fail(after+"/state/capacity", "after %s: GetCapacity()=%d, expected %d", after, capa, r.cap)
			return
		}
		if n > capa {
			r.Fail(after+"/state/over-capacity", "after %s: the stack holds %d values but GetCapacity()=%d", after, n, capa)
			return
		}
		if g := r.real.IsEmpty(); g != (n == 0) {
			r.Fail(after+"/state/isempty", "after %s: IsEmpty()=%v", after, g)
			return
		}
		arr := r.real.AsArray()
		if fmt.Sprint(arr) != fmt.Sprint(r.model) {
			r.Fail(after+"/state/array", "after %s: AsArray()=%v (top first)", after, arr)
			return
		}
		fw, ok := WalkForward(r.real.GetIterator(), n+2)
		if !ok || fmt.Sprint(fw) != fmt.Sprint(r.model) {
			r.Fail(after+"/state/iterate", "after %s: iteration=%v", after, fw)
		}
	})
}

func (r *c13run) construct(rng *core.Rng) bool {
	S := col.Stack[int](Notation)
	def := int(S.DefaultCapacity())
	how := rng.Intn(6)
	n := rng.Intn(2*def + 2) // 0 .. 2*default+1
	if rng.Chance(1, 2) {
		n = rng.Intn(6)
	}
	vs := make([]int, n)
	for i := range vs {
		r.next++
		vs[i] = r.next
	}
	var pan bool
	var msg string
	switch how {
	case 0:
		r.Log("Stack.Make()")
		r.cap = def
		pan, _, msg = Try(func() { r.real = S.Make() })
	case 1:
		c := rng.Range(0, 4)
		r.Log("Stack.MakeWithCapacity(%d)", c)
		r.cap = c
		pan, _, msg = Try(func() { r.real = S.MakeWithCapacity(uint(c)) })
		if c == 0 {
			// a capacity of zero is either rejected or replaced by a usable one
			if pan {
				r.C.Cover("stack.construct.zero-capacity-panics")
				return false
			}
			r.cap = -1
		}
	case 2, 3, 4, 5:
		var seq col.Sequential[int]
		queueSrc := false
		if how == 5 && rng.Chance(1, 12) {
			// a queue that is full, with one producer parked on it, as the source: whatever the
			// constructor sees of the parked value, it must not hold more than its capacity
			q := col.Queue[int](Notation).Make()
			qc := int(q.GetCapacity())
			src := make([]int, qc+1)
			for i := range src {
				r.next++
				src[i] = r.next
			}
			for _, v := range src[:qc] {
				q.AddValue(v)
			}
			done := make(chan struct{})
			go func() { defer close(done); q.AddValue(src[qc]) }()
			for i := 0; i < 2000 && len(q.AsArray()) <= qc; i++ {
				time.Sleep(50 * time.Microsecond)
			}
			r.Log("Stack.MakeFromSequence(full queue of %d with a producer parked on it)", qc)
			pan, _, msg = Try(func() { r.real = S.MakeFromSequence(q) })
			q.RemoveHead() // lets the parked producer finish
			<-done
			q.RemoveAll()
			queueSrc = true
			if !pan {
				got := r.real.AsArray()
				if (len(got) != qc && len(got) != qc+1) || fmt.Sprint(got) != fmt.Sprint(src[:len(got)]) {
					r.Fail("construct/queue-source", "a stack built from the queue %v (the last value pending) holds %v", src, got)
					return false
				}
				r.model = Clone(got)
			}
			r.C.Cover("stack.construct.queue-with-parked-producer")
		} else if how == 5 {
			// another collection as the source: the two must not share anything afterwards
			r.srcKind = []string{"stack", "list", "array"}[rng.Intn(3)]
			switch r.srcKind {
			case "stack":
				r.src = S.MakeFromArray(vs)
			case "list":
				r.src = col.List[int](Notation).MakeFromArray(vs)
			default:
				r.src = col.Array[int](Notation).MakeFromArray(vs)
			}
			r.srcWant = Clone(vs)
			r.Log("Stack.MakeFromSequence(%s %v)", r.srcKind, vs)
			src := r.src
			pan, _, msg = Try(func() { r.real = S.MakeFromSequence(src) })
		} else if how == 2 {
			r.Log("Stack.MakeFromArray(%v)", vs)
			pan, _, msg = Try(func() { r.real = S.MakeFromArray(vs) })
		} else {
			if how == 3 {
				seq = col.List[int](Notation).MakeFromArray(vs)
			} else {
				seq = &Spy[int]{Vals: Clone(vs)}
			}
			r.Log("Stack.MakeFromSequence(%v)", vs)
			pan, _, msg = Try(func() { r.real = S.MakeFromSequence(seq) })
		}
		// the first value of the source is the top (the notation lists a stack top first)
		if !queueSrc {
			r.model = Clone(vs)
		}
		r.cap = -1 // at least the size; checked by the invariant
		if pan && n > def {
			// refusing more values than the default capacity is acceptable
			r.C.Cover("stack.construct.too-many-panics")
			return false
		}
	}
	if pan {
		r.Fail("construct/unexpected-panic", "constructor panicked: %s", msg)
		return false
	}
	if r.cap == -1 {
		r.Guard("construct", func() {
			c := int(r.real.GetCapacity())
			if c < 1 {
				r.Fail("construct/state/capacity", "GetCapacity()=%d", c)
			}
			r.cap = c
		})
	}
	r.C.Cover(fmt.Sprintf("stack.construct.%d", how))
	if n > def {
		r.C.Cover("stack.construct.more-than-default-capacity")
	}
	r.observe("construct")
	return !r.Failed
}

// backdoor: a stack is changed through AddValue, RemoveTop and RemoveAll only.  If the
// object also answers to the mutating aspects of other collections (reachable by a type
// assertion), using them is a history like any other - and none of them has a meaning
// under which the stack's statements survive, so the model stays as it is.
func (r *c13run) backdoor(rng *core.Rng) {
	r.next++
	v := r.next
	var what string
	r.Guard("backdoor", func() {
		switch x := any(r.real).(type) {
		case col.Expandable[int]:
			what = "Expandable.AppendValue"
			x.AppendValue(v)
		case col.Updatable[int]:
			if len(r.model) > 0 {
				what = "Updatable.SetValue"
				x.SetValue(1, v)
			}
		case col.Sortable[int]:
			if len(r.model) > 1 {
				what = "Sortable.ReverseValues"
				x.ReverseValues()
			}
		case col.Flexible[int]:
			what = "Flexible.RemoveValue"
			if len(r.model) > 0 {
				x.RemoveValue(r.model[len(r.model)-1])
			}
		}
	})
	if what != "" && !r.Failed {
		r.Log("(type assertion) %s", what)
		r.observe("backdoor." + what)
	}
	r.C.Cover("stack.backdoor-probed")
}

func (r *c13run) step(rng *core.Rng) {
	n := len(r.model)
	if rng.Chance(1, 40) {
		r.backdoor(rng)
		if r.Failed {
			return
		}
	}
	op := []string{"AddValue", "RemoveTop", "RemoveAll"}[rng.Weighted([]int{10, 8, 1})]
	before := fmt.Sprint(r.model, r.cap)
	returned := false
	switch op {
	case "AddValue":
		r.next++
		v := r.next
		exp := mustReturn
		if n >= r.cap {
			exp = mustPanic
		}
		r.Log("AddValue(%d)", v)
		if returned = r.Call(op, exp, func() { r.real.AddValue(v) }); returned && n < r.cap {
			r.model = append([]int{v}, r.model...)
			r.muted = true
		}
	case "RemoveTop":
		exp := mustReturn
		if n == 0 {
			exp = mustPanic
		}
		r.Log("RemoveTop()")
		var got int
		if returned = r.Call(op, exp, func() { got = r.real.RemoveTop() }); returned && n > 0 {
			if got != r.model[0] {
				r.Fail(op+"/wrong-value", "RemoveTop()=%d, model top %d", got, r.model[0])
			}
			r.model = r.model[1:]
			r.muted = true
		}
	case "RemoveAll":
		r.Log("RemoveAll()")
		if returned = r.Call(op, mustReturn, func() { r.real.RemoveAll() }); returned {
			r.model = nil
			r.muted = true
		}
	}
	if r.Failed {
		return
	}
	r.observe(op)
	if r.src != nil && !r.Failed {
		r.Guard(op, func() {
			if got := fmt.Sprint(r.src.AsArray()); got != fmt.Sprint(r.srcWant) {
				r.Fail(op+"/constructor-argument-changed", "the %s passed to MakeFromSequence changed: now %s, expected %v", r.srcKind, got, r.srcWant)
			}
		})
		if !r.Failed && rng.Chance(1, 4) {
			var what string
			r.Guard("poke", func() { what = r.poke(rng) })
			if what != "" && !r.Failed {
				r.Log("(source %s).%s", r.srcKind, what)
				r.observe("source." + what)
				r.C.Cover("stack.source-changed-in-place." + r.srcKind)
			}
		}
	}
	out := "ok"
	if !returned {
		out = "panic"
	}
	r.C.Cover("stack." + op + "." + out)
	if r.muted {
		r.C.Distinct(core.Mix(core.HashStr(before), core.HashStr(op+out)))
	}
}

func RunC13History(c *core.Ctx) {
	r := &c13run{}
	r.Run = Run{C: c, Kind: "stack"}
	r.ModelStr = func() string { return fmt.Sprintf("%v cap=%d", r.model, r.cap) }
	if !r.construct(c.Rng) {
		return
	}
	steps := c.Rng.Range(1, 60)
	for s := 0; s < steps && !r.Failed; s++ {
		r.step(c.Rng)
	}
	if !r.Failed && c.WantSample("stack") {
		c.Sample("stack", map[string]any{"history": r.Hist, "final": r.ModelStr()})
	}
}

func ReproStackOverCapacity() (bool, string) {
	vs := make([]int, 20)
	for i := range vs {
		vs[i] = i
	}
	var s col.StackLike[int]
	pan, _, _ := Try(func() { s = col.Stack[int](Notation).MakeFromArray(vs) })
	if pan {
		return false, "MakeFromArray(20 values) is rejected"
	}
	if s.GetSize() > int(s.GetCapacity()) {
		return true, fmt.Sprintf("MakeFromArray(20 values) yields size %d with capacity %d", s.GetSize(), s.GetCapacity())
	}
	return false, fmt.Sprintf("size %d <= capacity %d", s.GetSize(), s.GetCapacity())
}
