package seq

import (
	"fmt"

	col "github.com/craterdog/go-collection-framework/v4/collection"

	"verif/harness/internal/core"
)

// RunC01Large: long sequences.  The short histories of RunC01History never
// take a List or an Array beyond a few dozen values; an implementation that
// manages spare capacity, grows geometrically or switches representation at
// some size would show its slips only at the boundaries.  One case grows a
// List to a length around a power of two (up to 5000), interleaving inserts,
// removals, updates and range operations, and compares with the Go-slice model
// at checkpoints and at the end.
func RunC01Large(c *core.Ctx) {
	r := c.Rng
	pow := []int{64, 128, 256, 512, 1024, 2048, 4096}[r.Intn(7)]
	target := pow + r.Range(-3, 3)
	if r.Chance(1, 4) {
		target = r.Range(40, 5000)
	}
	L := col.List[int](Notation)
	var l col.ListLike[int]
	var model []int
	next := 0
	cs := map[string]any{"target_length": target}
	// start from a constructor with half the values, or empty
	if r.Bool() {
		half := make([]int, target/2)
		for i := range half {
			next++
			half[i] = next
		}
		model = Clone(half)
		if r.Bool() {
			l = L.MakeFromArray(half)
			cs["start"] = fmt.Sprintf("MakeFromArray(%d values)", len(half))
		} else {
			l = L.MakeFromSequence(col.Array[int](Notation).MakeFromArray(half))
			cs["start"] = fmt.Sprintf("MakeFromSequence(array of %d values)", len(half))
		}
	} else {
		l = L.Make()
		cs["start"] = "Make()"
	}
	check := func(where string) bool {
		got := l.AsArray()
		if len(got) != len(model) || l.GetSize() != len(model) {
			c.Violation("large/"+where+"/size", fmt.Sprintf("%s: size %d (AsArray %d), model %d", where, l.GetSize(), len(got), len(model)), cs)
			return false
		}
		for i := range got {
			if got[i] != model[i] {
				c.Violation("large/"+where+"/contents", fmt.Sprintf("%s: position %d of %d holds %d, model %d", where, i+1, len(model), got[i], model[i]), cs)
				return false
			}
		}
		if n := len(model); n > 0 {
			for k := 0; k < 4; k++ {
				i := r.Range(1, n)
				if g := l.GetValue(i); g != model[i-1] {
					c.Violation("large/"+where+"/getvalue", fmt.Sprintf("%s: GetValue(%d)=%d, model %d", where, i, g, model[i-1]), cs)
					return false
				}
				if g := l.GetValue(i - n - 1); g != model[i-1] {
					c.Violation("large/"+where+"/getvalue", fmt.Sprintf("%s: GetValue(%d)=%d, model %d", where, i-n-1, g, model[i-1]), cs)
					return false
				}
				if g := l.GetIndex(model[i-1]); g != i { // values are unique
					c.Violation("large/"+where+"/getindex", fmt.Sprintf("%s: GetIndex(%d)=%d, model %d", where, model[i-1], g, i), cs)
					return false
				}
			}
		}
		return true
	}
	var pmsg string
	pan, noret, msg := Try(func() {
		steps := 0
		for len(model) < target && steps < 4*target+100 {
			steps++
			n := len(model)
			switch op := r.Weighted([]int{20, 4, 3, 2, 1, 1}); op {
			case 0:
				next++
				l.AppendValue(next)
				model = append(model, next)
			case 1:
				next++
				slot := r.Intn(n + 1)
				l.InsertValue(uint(slot), next)
				model = append(model[:slot], append([]int{next}, model[slot:]...)...)
			case 2:
				if n > 0 {
					i := r.Range(1, n)
					if g := l.RemoveValue(i); g != model[i-1] {
						pmsg = fmt.Sprintf("RemoveValue(%d) at length %d returned %d, model %d", i, n, g, model[i-1])
						return
					}
					model = append(model[:i-1], model[i:]...)
				}
			case 3:
				if n > 0 {
					i := r.Range(1, n)
					next++
					l.SetValue(i, next)
					model[i-1] = next
				}
			case 4:
				// append a batch
				k := r.Range(1, 40)
				batch := make([]int, k)
				for j := range batch {
					next++
					batch[j] = next
				}
				l.AppendValues(L.MakeFromArray(batch))
				model = append(model, batch...)
			default:
				if n > 8 {
					f := r.Range(1, n-4)
					t := f + r.Intn(4)
					removed := l.RemoveValues(f, t).AsArray()
					if fmt.Sprint(removed) != fmt.Sprint(model[f-1:t]) {
						pmsg = fmt.Sprintf("RemoveValues(%d,%d) at length %d returned %v, model %v", f, t, n, removed, model[f-1:t])
						return
					}
					model = append(model[:f-1], model[t:]...)
				}
			}
			if steps%257 == 0 || len(model) == pow-1 || len(model) == pow || len(model) == pow+1 {
				if !check(fmt.Sprintf("checkpoint")) {
					pmsg = "-"
					return
				}
			}
		}
	})
	cs["final_length"] = len(model)
	switch {
	case pmsg == "-":
		return
	case pmsg != "":
		c.Violation("large/wrong-result", pmsg, cs)
		return
	case pan || noret:
		c.Violation("large/panicked", "a valid call on a long list panicked or did not return: "+msg, cs)
		return
	}
	if !check("end") {
		return
	}
	// iteration from both ends
	fw, ok := WalkForward(l.GetIterator(), len(model)+2)
	if !ok || len(fw) != len(model) || (len(fw) > 0 && (fw[0] != model[0] || fw[len(fw)-1] != model[len(model)-1])) {
		c.Violation("large/end/iterate", "iteration of a long list differs from the model", cs)
		return
	}
	c.Cover(fmt.Sprintf("large.around-%d", pow))
	c.Distinct(core.Mix(0x1a26e, uint64(target), uint64(len(model)), uint64(next)))
	if c.WantSample("large") {
		c.Sample("large", cs)
	}
}
