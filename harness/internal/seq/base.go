package seq

import (
	"fmt"

	"verif/harness/internal/core"
)

// Run is the bookkeeping shared by the lock-step monitors.
type Run struct {
	C      *core.Ctx
	Kind   string
	Meta   map[string]any
	Hist   []string
	Failed bool
	// ModelStr prints the model for violation messages.
	ModelStr func() string
}

func (r *Run) Log(format string, a ...any) { r.Hist = append(r.Hist, fmt.Sprintf(format, a...)) }

func (r *Run) Fail(sig, format string, a ...any) {
	if r.Failed {
		return
	}
	r.Failed = true
	m := ""
	if r.ModelStr != nil {
		m = "\nmodel=" + r.ModelStr()
	}
	cs := map[string]any{"kind": r.Kind, "history": r.Hist}
	for k, v := range r.Meta {
		cs[k] = v
	}
	r.C.Violation(r.Kind+"."+sig, fmt.Sprintf(format, a...)+m, cs)
}

// Call runs op and checks panic/no-panic against exp; true when op returned.
func (r *Run) Call(name string, exp expect, op func()) bool {
	pan, noret, msg := Try(op)
	if noret {
		r.Fail(name+"/no-return", "%s does not return: %s", name, msg)
		return false
	}
	if pan && exp == mustReturn {
		r.Fail(name+"/unexpected-panic", "%s panicked: %s", name, msg)
		return false
	}
	if !pan && exp == mustPanic {
		r.Fail(name+"/missing-panic", "%s returned normally although the statement requires a panic", name)
		return false
	}
	return !pan
}

// Guard runs a block of reads; a panic inside is a violation.
func (r *Run) Guard(after string, f func()) {
	if r.Failed {
		return
	}
	pan, _, msg := Try(f)
	if pan {
		r.Fail(after+"/state/read-panicked", "after %s: reading the state panicked: %s", after, msg)
	}
}

const (
	MustReturn = mustReturn
	MustPanic  = mustPanic
	Either     = either
)
