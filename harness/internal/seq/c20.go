package seq

import (
	"fmt"
	"reflect"
	"sort"
	"strconv"
	"strings"

	mod "github.com/craterdog/go-collection-framework/v4"
	cdc "github.com/craterdog/go-collection-framework/v4/cdcn"
	col "github.com/craterdog/go-collection-framework/v4/collection"

	"verif/harness/internal/core"
)

// ---- C20: universal constructors against class constructors and the parser ----

// ElemType describes one element/key type of the matrix.
type ElemType[V comparable] struct {
	Name string
	Gen  func(r *core.Rng) V
	Lit  func(v V) string // CDCN literal whose parsed value is v
}

func litString(s string) string { return strconv.Quote(s) }

var (
	ETInt64 = ElemType[int64]{"int64", func(r *core.Rng) int64 { return int64(r.Intn(41)) - 20 }, func(v int64) string { return strconv.FormatInt(v, 10) }}
	ETUint  = ElemType[uint64]{"uint64", func(r *core.Rng) uint64 { return uint64(r.Intn(40)) }, func(v uint64) string { return "0x" + strconv.FormatUint(v, 16) }}
	ETFloat = ElemType[float64]{"float64", func(r *core.Rng) float64 { return float64(r.Intn(81)-40) / 4 }, func(v float64) string {
		s := strconv.FormatFloat(v, 'f', -1, 64)
		if !strings.Contains(s, ".") {
			s += ".0"
		}
		return s
	}}
	ETString = ElemType[string]{"string", func(r *core.Rng) string {
		return []string{"", "a", "b", "ab", "k", "v", "x y", "é"}[r.Intn(8)] + strconv.Itoa(r.Intn(4))
	}, litString}
	ETRune = ElemType[rune]{"rune", func(r *core.Rng) rune { return []rune{'a', 'b', 'c', 'é', 'z', '0', 'Q', '☺'}[r.Intn(8)] }, func(v rune) string { return strconv.QuoteRune(v) }}
	ETBool = ElemType[bool]{"bool", func(r *core.Rng) bool { return r.Bool() }, func(v bool) string { return strconv.FormatBool(v) }}
	ETAny  = ElemType[any]{"any", func(r *core.Rng) any {
		switch r.Intn(5) {
		case 0:
			return int64(r.Intn(9) - 4)
		case 1:
			return []string{"a", "b", "c", ""}[r.Intn(4)]
		case 2:
			return r.Bool()
		case 3:
			return float64(r.Intn(9)) / 2
		default:
			return rune('a' + r.Intn(3))
		}
	}, func(v any) string {
		switch x := v.(type) {
		case nil:
			return "nil"
		case int64:
			return strconv.FormatInt(x, 10)
		case string:
			return litString(x)
		case bool:
			return strconv.FormatBool(x)
		case float64:
			return ETFloat.Lit(x)
		case rune:
			return strconv.QuoteRune(x)
		}
		return "nil"
	}}
	// ETAnyNil: like ETAny plus the nil literal, which is a value of an interface-typed
	// element (used for the sequence kinds only: the universal Association, Catalog and
	// Map constructors cannot tell a nil argument from a missing one)
	ETAnyNil = ElemType[any]{"any+nil", func(r *core.Rng) any {
		if r.Chance(1, 4) {
			return nil
		}
		return ETAny.Gen(r)
	}, func(v any) string { return ETAny.Lit(v) }}
)

type c20ctx struct {
	c    *core.Ctx
	cell string
	cs   map[string]any
	bad  bool
}

func (x *c20ctx) fail(sig, format string, a ...any) {
	if x.bad {
		return
	}
	x.bad = true
	x.c.Violation("module."+sig, fmt.Sprintf(format, a...), x.cs)
}

func deepArr[V any](s col.Sequential[V]) string { return fmt.Sprintf("%#v", s.AsArray()) }

// compareSeq compares a module-level result with the class-level one.
func compareSeq[V any](x *c20ctx, sig string, got, want col.Sequential[V]) {
	if reflect.TypeOf(got) != reflect.TypeOf(want) {
		x.fail(sig+"/kind", "kind %T, class-level constructor gives %T", got, want)
		return
	}
	if !reflect.DeepEqual(got.AsArray(), want.AsArray()) {
		x.fail(sig+"/contents", "module-level: %s, class-level: %s", deepArr(got), deepArr(want))
		return
	}
	type capper interface{ GetCapacity() uint }
	if g, ok := any(got).(capper); ok {
		if g.GetCapacity() != any(want).(capper).GetCapacity() {
			x.fail(sig+"/capacity", "capacity %d, class-level constructor gives %d", g.GetCapacity(), any(want).(capper).GetCapacity())
		}
	}
}

func try2(x *c20ctx, sig string, f func()) bool {
	pan, noret, msg := Try(f)
	if pan || noret {
		x.fail(sig+"/panicked", "panicked: %s", msg)
		return false
	}
	return true
}

func withNotation(r *core.Rng, args ...any) ([]any, string) {
	switch r.Intn(3) {
	case 0:
		return args, "no-notation"
	case 1:
		return append([]any{cdc.Notation().Make()}, args...), "notation-first"
	default:
		return append(args, cdc.Notation().Make()), "notation-last"
	}
}

func srcOf[V comparable](et ElemType[V], vs []V, ctx string, multiline bool) string {
	if len(vs) == 0 {
		return "[ ](" + ctx + ")"
	}
	lits := make([]string, len(vs))
	for i, v := range vs {
		lits[i] = et.Lit(v)
	}
	if multiline {
		return "[\n    " + strings.Join(lits, "\n    ") + "\n](" + ctx + ")"
	}
	return "[" + strings.Join(lits, ", ") + "](" + ctx + ")"
}

// c20poison makes a module-level constructor reject a malformed source (with the
// default notation); the constructor calls that follow must not notice.
func c20poison(c *core.Ctx, r *core.Rng) string {
	bad := []string{"[1, 2", "[1 2](List)", "](List", "[\"a\": ](Catalog)", "[1, 2](Nope)", "[[1](List)"}[r.Intn(6)]
	k := r.Intn(4)
	Try(func() {
		switch k {
		case 0:
			mod.List[int64](bad)
		case 1:
			mod.Set[any](bad)
		case 2:
			mod.Catalog[string, int64](bad)
		default:
			mod.ParseSource(bad)
		}
	})
	c.Cover("earlier-rejected-source")
	return fmt.Sprintf("%s(%q)", []string{"List[int64]", "Set[any]", "Catalog[string,int64]", "ParseSource"}[k], bad)
}

// RunC20Seq: one cell of the matrix for the five sequence kinds.
func RunC20Seq[V comparable](c *core.Ctx, et ElemType[V], kind string, maxQueue int) {
	r := c.Rng
	poison := ""
	if r.Chance(1, 5) {
		poison = c20poison(c, r)
	}
	n := r.Intn(21)
	if r.Chance(1, 3) {
		n = r.Intn(4)
	}
	if kind == "Queue" && n > maxQueue {
		n = r.Intn(maxQueue + 1)
	}
	vs := make([]V, n)
	for i := range vs {
		vs[i] = et.Gen(r)
	}
	forms := []string{"array", "sequence", "source", "none", "size"}
	form := forms[r.Intn(len(forms))]
	x := &c20ctx{c: c, cell: kind + "/" + et.Name + "/" + form}
	x.cs = map[string]any{"kind": kind, "element": et.Name, "form": form, "values": fmt.Sprintf("%#v", vs)}
	if poison != "" {
		x.cs["earlier_rejected_call"] = poison
	}
	N := Notation
	var got, want col.Sequential[V]
	sig := kind + "/" + form
	var args []any
	var npos string
	switch form {
	case "array":
		args, npos = withNotation(r, vs)
	case "sequence":
		var s col.Sequential[V] = col.List[V](N).MakeFromArray(vs)
		if r.Bool() {
			s = col.Array[V](N).MakeFromArray(vs)
		}
		args, npos = withNotation(r, s)
		x.cs["sequence"] = fmt.Sprintf("%T", s)
	case "source":
		ctx := kind
		if r.Chance(1, 4) {
			ctx = []string{"List", "Array", "Set", "Stack"}[r.Intn(4)]
		}
		src := srcOf(et, vs, ctx, r.Bool())
		x.cs["source"] = src
		args, npos = withNotation(r, src)
	case "none":
		args, npos = withNotation(r)
	case "size":
		k := r.Range(1, 20)
		if r.Bool() {
			args, npos = withNotation(r, uint(k))
		} else {
			args, npos = withNotation(r, k)
		}
		x.cs["size"] = k
	}
	x.cs["notation"] = npos
	empty := n == 0 && (form == "array" || form == "sequence" || form == "source")

	// the class-level reference (same data; for the source form the data are the
	// elements of the directly parsed source, in their parsed order)
	if form == "source" {
		if !try2(x, sig+"/parse", func() {
			parsed := mod.ParseSource(x.cs["source"].(string)).(col.Sequential[any]).AsArray()
			pv := make([]V, len(parsed))
			for i, e := range parsed {
				if e == nil {
					continue // the nil literal: the zero value of an interface-typed V
				}
				pv[i] = e.(V)
			}
			vs = pv
		}) {
			return
		}
	}
	classOK := try2(x, sig+"/class-level", func() {
		switch kind {
		case "Array":
			A := col.Array[V](N)
			switch form {
			case "array", "sequence", "source":
				want = A.MakeFromArray(vs)
			case "size":
				want = A.Make(uint(x.cs["size"].(int)))
			}
		case "List":
			L := col.List[V](N)
			switch form {
			case "array", "sequence", "source":
				want = L.MakeFromArray(vs)
			case "none":
				want = L.Make()
			}
		case "Set":
			S := col.Set[V](N)
			switch form {
			case "array", "sequence", "source":
				want = S.MakeFromArray(vs)
			case "none":
				want = S.Make()
			}
		case "Stack":
			S := col.Stack[V](N)
			switch form {
			case "array", "sequence", "source":
				want = S.MakeFromArray(vs)
			case "none":
				want = S.Make()
			case "size":
				want = S.MakeWithCapacity(uint(x.cs["size"].(int)))
			}
		case "Queue":
			Q := col.Queue[V](N)
			switch form {
			case "array", "sequence", "source":
				want = Q.MakeFromArray(vs)
			case "none":
				want = Q.Make()
			case "size":
				want = Q.MakeWithCapacity(uint(x.cs["size"].(int)))
			}
		}
	})
	if !classOK {
		return
	}
	if want == nil {
		// not a documented form for this kind (e.g. List with a size, Array without arguments)
		c.Cover("undocumented-form-skipped")
		return
	}
	argsBefore := append([]any{}, args...)
	defer func() {
		// the caller's argument list is the caller's
		if x.bad {
			return
		}
		for i := range args {
			if len(args) != len(argsBefore) || !SameAny(args[i], argsBefore[i]) {
				x.fail(sig+"/arguments-changed", "the call rewrote the argument list it was given: %v, was %v", args, argsBefore)
				return
			}
		}
	}()
	pan, noret, msg := Try(func() {
		switch kind {
		case "Array":
			got = mod.Array[V](args...)
		case "List":
			got = mod.List[V](args...)
		case "Set":
			got = mod.Set[V](args...)
		case "Stack":
			got = mod.Stack[V](args...)
		case "Queue":
			got = mod.Queue[V](args...)
		}
	})
	if pan || noret {
		if empty && kind == "Array" && form == "array" {
			// an Array needs a size or contents: an empty Go array cannot be told from "no
			// argument" (an empty sequence and an empty source are arguments: they work)
			c.Cover("array-empty-argument-rejected")
			return
		}
		x.fail(sig+"/panicked", "the module-level constructor panicked: %s", msg)
		return
	}
	compareSeq(x, sig, got, want)
	if form == "source" && !x.bad {
		// same contents and order as parsing the source directly
		try2(x, sig+"/parse", func() {
			parsed := mod.ParseSource(x.cs["source"].(string)).(col.Sequential[any])
			pa := parsed.AsArray()
			ga := got.AsArray()
			ctx := x.cs["source"].(string)
			sameCtx := strings.HasSuffix(ctx, "("+kind+")")
			if sameCtx || kind == "List" || kind == "Array" {
				ok := len(pa) == len(ga)
				for i := 0; ok && i < len(pa); i++ {
					ok = reflect.DeepEqual(pa[i], any(ga[i]))
				}
				if !ok {
					x.fail(sig+"/differs-from-parse", "module-level: %s, ParseSource: %#v", deepArr(got), pa)
				}
			}
		})
	}
	if !x.bad {
		c.Cover("cell." + kind + "." + form)
		c.Distinct(core.Mix(core.HashStr(x.cell), core.HashStr(fmt.Sprintf("%#v", vs)), core.HashStr(npos)))
		if c.WantSample(kind + "/" + form) {
			c.Sample(kind+"/"+form, x.cs)
		}
	}
}

// RunC20Set: the collator form of Set.
func RunC20SetCollator(c *core.Ctx) {
	r := c.Rng
	n := r.Intn(12)
	vs := make([]int64, n)
	for i := range vs {
		vs[i] = ETInt64.Gen(r)
	}
	x := &c20ctx{c: c, cell: "Set/collator"}
	x.cs = map[string]any{"kind": "Set", "form": "collator", "values": fmt.Sprint(vs)}
	rev := &HCollator[int64]{Name: "reversed", Rank: func(a, b int64) int { return int(b - a) }}
	var got col.SetLike[int64]
	variant := r.Intn(4)
	if !try2(x, "Set/collator", func() {
		switch variant {
		case 0:
			got = mod.Set[int64](rev)
		case 1:
			got = mod.Set[int64](rev, vs)
		case 2:
			got = mod.Set[int64](col.List[int64](Notation).MakeFromArray(vs), rev)
		default:
			got = mod.Set[int64](srcOf(ETInt64, vs, "Set", false), rev, cdc.Notation().Make())
		}
	}) {
		return
	}
	want := col.Set[int64](Notation).MakeWithCollator(rev)
	if variant != 0 {
		for _, v := range vs {
			want.AddValue(v)
		}
	}
	if !reflect.DeepEqual(got.AsArray(), want.AsArray()) {
		x.fail("Set/collator/contents", "module-level: %v, class-level: %v", got.AsArray(), want.AsArray())
		return
	}
	if got.GetCollator() != any(rev) {
		x.fail("Set/collator/collator", "the set does not carry the supplied collator")
		return
	}
	c.Cover("cell.Set.collator")
	c.Distinct(core.Mix(0x5e7, core.HashStr(fmt.Sprint(vs)), uint64(variant)))
}

func canonAssoc[K comparable, V any](s col.Sequential[col.AssociationLike[K, V]], ordered bool) string {
	var out []string
	for _, a := range s.AsArray() {
		out = append(out, fmt.Sprintf("%#v:%#v", a.GetKey(), a.GetValue()))
	}
	if !ordered {
		sort.Strings(out)
	}
	return strings.Join(out, " ")
}

// RunC20Assoc: Catalog and Map cells.
func RunC20Assoc[K comparable, V comparable](c *core.Ctx, kt ElemType[K], vt ElemType[V], kind string) {
	r := c.Rng
	poison := ""
	if r.Chance(1, 5) {
		poison = c20poison(c, r)
	}
	n := r.Intn(21)
	if r.Chance(1, 3) {
		n = r.Intn(4)
	}
	ks := make([]K, 0, n)
	vs := make([]V, 0, n)
	seen := map[K]bool{}
	for i := 0; i < n; i++ {
		k := kt.Gen(r)
		if seen[k] {
			continue
		}
		seen[k] = true
		ks = append(ks, k)
		vs = append(vs, vt.Gen(r))
	}
	n = len(ks)
	form := []string{"array", "map", "sequence", "source", "none"}[r.Intn(5)]
	x := &c20ctx{c: c, cell: kind + "/" + kt.Name + "," + vt.Name + "/" + form}
	x.cs = map[string]any{"kind": kind, "key": kt.Name, "value": vt.Name, "form": form, "keys": fmt.Sprintf("%#v", ks), "values": fmt.Sprintf("%#v", vs)}
	if poison != "" {
		x.cs["earlier_rejected_call"] = poison
	}
	N := Notation
	A := col.Association[K, V](N)
	as := make([]col.AssociationLike[K, V], n)
	m := map[K]V{}
	for i := range ks {
		as[i] = A.Make(ks[i], vs[i])
		m[ks[i]] = vs[i]
	}
	var args []any
	var npos string
	switch form {
	case "array":
		args, npos = withNotation(r, as)
	case "map":
		args, npos = withNotation(r, m)
	case "sequence":
		var s col.Sequential[col.AssociationLike[K, V]] = col.List[col.AssociationLike[K, V]](N).MakeFromArray(as)
		if r.Bool() {
			s = col.Catalog[K, V](N).MakeFromArray(as)
		}
		args, npos = withNotation(r, s)
	case "source":
		parts := make([]string, n)
		for i := range ks {
			parts[i] = kt.Lit(ks[i]) + ": " + vt.Lit(vs[i])
		}
		src := "[:](" + kind + ")"
		if n > 0 {
			if r.Bool() {
				src = "[" + strings.Join(parts, ", ") + "](" + kind + ")"
			} else {
				src = "[\n    " + strings.Join(parts, "\n    ") + "\n](" + kind + ")"
			}
		}
		x.cs["source"] = src
		args, npos = withNotation(r, src)
	case "none":
		args, npos = withNotation(r)
	}
	x.cs["notation"] = npos
	sig := kind + "/" + form
	var got, want interface {
		col.Sequential[col.AssociationLike[K, V]]
		col.Associative[K, V]
	}
	if !try2(x, sig+"/class-level", func() {
		if kind == "Catalog" {
			C := col.Catalog[K, V](N)
			switch form {
			case "array", "sequence", "source":
				want = C.MakeFromArray(as)
			case "map":
				want = C.MakeFromMap(m)
			default:
				want = C.Make()
			}
		} else {
			M := col.Map[K, V](N)
			switch form {
			case "array", "sequence", "source":
				want = M.MakeFromArray(as)
			case "map":
				want = M.MakeFromMap(m)
			default:
				want = M.Make()
			}
		}
	}) {
		return
	}
	if !try2(x, sig, func() {
		if kind == "Catalog" {
			got = mod.Catalog[K, V](args...)
		} else {
			got = mod.Map[K, V](args...)
		}
	}) {
		return
	}
	if reflect.TypeOf(got) != reflect.TypeOf(want) {
		x.fail(sig+"/kind", "kind %T, class-level constructor gives %T", got, want)
		return
	}
	ordered := kind == "Catalog" && form != "map"
	if canonAssoc[K, V](got, ordered) != canonAssoc[K, V](want, ordered) {
		x.fail(sig+"/contents", "module-level: %s, class-level: %s", canonAssoc[K, V](got, ordered), canonAssoc[K, V](want, ordered))
		return
	}
	for i, k := range ks {
		if form != "none" && got.GetValue(k) != vs[i] {
			x.fail(sig+"/lookup", "GetValue(%#v)=%#v, expected %#v", k, got.GetValue(k), vs[i])
			return
		}
	}
	c.Cover("cell." + kind + "." + form)
	c.Distinct(core.Mix(core.HashStr(x.cell), core.HashStr(fmt.Sprintf("%#v%#v", ks, vs)), core.HashStr(npos)))
	if c.WantSample(kind + "/" + form) {
		c.Sample(kind+"/"+form, x.cs)
	}
}

// RunC20Association: Association(k, v) for a pair of types.
func RunC20Association[K comparable, V comparable](c *core.Ctx, kt ElemType[K], vt ElemType[V]) {
	r := c.Rng
	k, v := kt.Gen(r), vt.Gen(r)
	x := &c20ctx{c: c, cell: "Association/" + kt.Name + "," + vt.Name}
	x.cs = map[string]any{"kind": "Association", "key_type": kt.Name, "value_type": vt.Name, "key": fmt.Sprintf("%#v", k), "value": fmt.Sprintf("%#v", v)}
	args, npos := withNotation(r, k, v)
	x.cs["notation"] = npos
	var got col.AssociationLike[K, V]
	argsBefore := append([]any{}, args...)
	if !try2(x, "Association/"+sameness(kt.Name, vt.Name), func() { got = mod.Association[K, V](args...) }) {
		return
	}
	// the caller's argument list is the caller's: unchanged, and good for a second call
	for i := range args {
		if len(args) != len(argsBefore) || !SameAny(args[i], argsBefore[i]) {
			x.fail("Association/arguments-changed", "the call rewrote the argument list it was given: %v, was %v", args, argsBefore)
			return
		}
	}
	if !try2(x, "Association/"+sameness(kt.Name, vt.Name)+"/second-call-with-the-same-arguments", func() { got = mod.Association[K, V](args...) }) {
		return
	}
	if got.GetKey() != k || any(got.GetValue()) != any(v) {
		x.fail("Association/"+sameness(kt.Name, vt.Name)+"/wrong-pair", "Association(%#v, %#v) has key %#v and value %#v", k, v, got.GetKey(), got.GetValue())
		return
	}
	c.Cover("cell.Association." + sameness(kt.Name, vt.Name))
	c.Distinct(core.Mix(core.HashStr(x.cell), core.HashStr(fmt.Sprintf("%#v|%#v", k, v)), core.HashStr(npos)))
	if c.WantSample("Association/" + sameness(kt.Name, vt.Name)) {
		c.Sample("Association/"+sameness(kt.Name, vt.Name), x.cs)
	}
}

func sameness(a, b string) string {
	switch {
	case a == b:
		return "same-types"
	case b == "any" || a == "any":
		return "any-typed"
	}
	return "different-types"
}

// ---- reproducers ----

func ReproAssociationSameTypes() (bool, string) {
	var a col.AssociationLike[string, string]
	pan, _, msg := Try(func() { a = mod.Association[string, string]("k", "v") })
	if pan {
		return true, "Association[string,string](\"k\",\"v\") panicked: " + msg
	}
	if a.GetKey() != "k" || a.GetValue() != "v" {
		return true, fmt.Sprintf("Association[string,string](\"k\",\"v\") has key %q and value %q", a.GetKey(), a.GetValue())
	}
	var b col.AssociationLike[string, any]
	pan, _, msg = Try(func() { b = mod.Association[string, any]("k", "v") })
	if pan {
		return true, "Association[string,any](\"k\",\"v\") panicked: " + msg
	}
	if b.GetKey() != "k" || b.GetValue() != any("v") {
		return true, fmt.Sprintf("Association[string,any](\"k\",\"v\") has key %q and value %#v", b.GetKey(), b.GetValue())
	}
	return false, "key and value are taken positionally"
}

func ReproArraySource() (bool, string) {
	var a col.ArrayLike[int64]
	pan, _, msg := Try(func() { a = mod.Array[int64]("[1, 2, 3](Array)") })
	if pan {
		return true, "Array[int64](\"[1, 2, 3](Array)\") panicked: " + msg
	}
	if fmt.Sprint(a.AsArray()) != "[1 2 3]" {
		return true, "Array[int64](source) = " + fmt.Sprint(a.AsArray())
	}
	return false, "Array[int64](source) = [1 2 3]"
}

func ReproStackSource() (bool, string) {
	var s col.StackLike[int64]
	pan, _, msg := Try(func() { s = mod.Stack[int64]("[1, 2, 3](Stack)") })
	if pan {
		return true, "panicked: " + msg
	}
	parsed := mod.ParseSource("[1, 2, 3](Stack)").(col.Sequential[any]).AsArray()
	if fmt.Sprint(s.AsArray()) != fmt.Sprint(parsed) {
		return true, fmt.Sprintf("Stack[int64](\"[1, 2, 3](Stack)\") lists %v (top first) but parsing the same source gives %v", s.AsArray(), parsed)
	}
	return false, "same order as the parsed stack"
}

// RunC20ForeignLiteral: a well-formed source in which one literal is not of
// the element (or value) type of the constructor.  The collection cannot hold
// it as parsed, so the call either panics or - if an implementation chooses to
// convert - returns contents that print like the directly parsed ones; what it
// must not do is return something else in its place.
func RunC20ForeignLiteral(c *core.Ctx) {
	r := c.Rng
	n := r.Range(1, 6)
	at := r.Intn(n)
	foreign := []string{"0x2", "1.5", "\"x\"", "true", "'a'", "(1.0+2.0i)"}[r.Intn(6)]
	lits := make([]string, n)
	for i := range lits {
		lits[i] = fmt.Sprint(10 + i)
	}
	kind := []string{"List", "Set", "Stack", "Queue", "Array", "Catalog", "Map"}[r.Intn(7)]
	var src string
	if kind == "Catalog" || kind == "Map" {
		parts := make([]string, n)
		for i := range lits {
			v := lits[i]
			if i == at {
				v = foreign
			}
			parts[i] = fmt.Sprintf("\"k%d\": %s", i, v)
		}
		src = "[" + strings.Join(parts, ", ") + "](" + kind + ")"
	} else {
		lits[at] = foreign
		src = "[" + strings.Join(lits, ", ") + "](" + kind + ")"
	}
	cs := map[string]any{"kind": kind, "element": "int64", "source": src, "foreign_literal": foreign}
	var got []string
	pan, noret, _ := Try(func() {
		switch kind {
		case "List":
			got = sprintAll(mod.List[int64](src).AsArray())
		case "Set":
			got = sprintAll(mod.Set[int64](src).AsArray())
		case "Stack":
			got = sprintAll(mod.Stack[int64](src).AsArray())
		case "Queue":
			got = sprintAll(mod.Queue[int64](src).AsArray())
		case "Array":
			got = sprintAll(mod.Array[int64](src).AsArray())
		case "Catalog":
			for _, a := range mod.Catalog[string, int64](src).AsArray() {
				got = append(got, fmt.Sprint(a.GetKey(), ":", a.GetValue()))
			}
		default:
			for _, a := range mod.Map[string, int64](src).AsArray() {
				got = append(got, fmt.Sprint(a.GetKey(), ":", a.GetValue()))
			}
			sort.Strings(got)
		}
	})
	if noret {
		c.Violation("module."+kind+"/foreign-literal/no-return", "the constructor did not return", cs)
		return
	}
	if pan {
		c.Cover("foreign-literal-rejected")
		c.Distinct(core.HashStr(src))
		return
	}
	// it returned: the contents must be those of the directly parsed source
	var want []string
	if pan2, _, msg := Try(func() {
		switch p := mod.ParseSource(src).(type) {
		case col.Sequential[col.AssociationLike[any, any]]:
			for _, a := range p.AsArray() {
				want = append(want, fmt.Sprint(a.GetKey(), ":", a.GetValue()))
			}
			if kind == "Map" {
				sort.Strings(want)
			}
		case col.Sequential[any]:
			want = sprintAll(p.AsArray())
		}
	}); pan2 {
		c.Inconclusive("C20 foreign literal: the source could not be parsed directly: " + msg)
		return
	}
	if fmt.Sprint(got) != fmt.Sprint(want) {
		c.Violation("module."+kind+"/foreign-literal/replaced", fmt.Sprintf("the constructor accepted a source holding a literal of another type and returned %v where parsing the source directly gives %v", got, want), cs)
		return
	}
	c.Cover("foreign-literal-converted")
	c.Distinct(core.HashStr(src))
}

func sprintAll[V any](vs []V) []string {
	out := make([]string, len(vs))
	for i, v := range vs {
		out[i] = fmt.Sprint(v)
	}
	return out
}

// ReproNilLiteral: the CDCN-source form with a nil literal and an interface-typed element.
func ReproNilLiteral() (bool, string) {
	var got []any
	pan, _, msg := Try(func() { got = mod.List[any]("[nil, 1](List)").AsArray() })
	if pan {
		return true, "List[any](\"[nil, 1](List)\") panicked: " + msg
	}
	if len(got) != 2 || got[0] != nil || got[1] != int64(1) {
		return true, fmt.Sprintf("List[any](\"[nil, 1](List)\") = %#v", got)
	}
	return false, "List[any](\"[nil, 1](List)\") = [nil 1]"
}

// SameAny: identity / equality of two argument values without panicking on uncomparable ones.
func SameAny(a, b any) (same bool) {
	defer func() {
		if recover() != nil {
			same = fmt.Sprintf("%p", a) == fmt.Sprintf("%p", b)
		}
	}()
	return a == b
}
