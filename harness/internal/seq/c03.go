package seq

import (
	"fmt"
	"strings"

	age "github.com/craterdog/go-collection-framework/v4/agent"
	col "github.com/craterdog/go-collection-framework/v4/collection"

	"verif/harness/internal/core"
)

// ---- C03: Catalog against an insertion-ordered map ----

// KeyDom describes a key type: a pool of keys (present and absent ones are
// drawn from it) and printing.  Key equality is Go ==.
type KeyDom[K comparable] struct {
	Name string
	Pool []K
	Str  func(k K) string
	Less func(a, b K) bool // optional, for the by-key ranker
}

type kv[K comparable] struct {
	k K
	v int
}

type c03run[K comparable] struct {
	Run
	d     KeyDom[K]
	real  col.CatalogLike[K, int]
	model []kv[K]
	muted bool
	// the catalog handed to MakeFromSequence must stay what it was
	srcCat  col.CatalogLike[K, int]
	srcWant string
}

func (r *c03run[K]) modelStr() string {
	var sb strings.Builder
	sb.WriteByte('[')
	for i, e := range r.model {
		if i > 0 {
			sb.WriteByte(' ')
		}
		fmt.Fprintf(&sb, "%s:%d", r.d.Str(e.k), e.v)
	}
	sb.WriteByte(']')
	return sb.String()
}

func (r *c03run[K]) find(k K) int {
	for i, e := range r.model {
		if e.k == k {
			return i
		}
	}
	return -1
}

func (r *c03run[K]) set(k K, v int) {
	if i := r.find(k); i >= 0 {
		r.model[i].v = v
		return
	}
	r.model = append(r.model, kv[K]{k, v})
}

func (r *c03run[K]) del(k K) int {
	i := r.find(k)
	if i < 0 {
		return 0
	}
	v := r.model[i].v
	r.model = append(r.model[:i:i], r.model[i+1:]...)
	return v
}

func assocStr[K comparable](d KeyDom[K], as []col.AssociationLike[K, int]) string {
	var sb strings.Builder
	sb.WriteByte('[')
	for i, a := range as {
		if i > 0 {
			sb.WriteByte(' ')
		}
		if a == nil {
			sb.WriteString("<nil>")
			continue
		}
		fmt.Fprintf(&sb, "%s:%d", d.Str(a.GetKey()), a.GetValue())
	}
	sb.WriteByte(']')
	return sb.String()
}

func (r *c03run[K]) matches(as []col.AssociationLike[K, int]) bool {
	if len(as) != len(r.model) {
		return false
	}
	for i, a := range as {
		if a == nil || a.GetKey() != r.model[i].k || a.GetValue() != r.model[i].v {
			return false
		}
	}
	return true
}

func (r *c03run[K]) observe(after string) {
	r.Guard(after, func() {
		n := len(r.model)
		if g := r.real.GetSize(); g != n {
			r.Fail(after+"/state/size", "after %s: GetSize()=%d, model %d", after, g, n)
			return
		}
		if g := r.real.IsEmpty(); g != (n == 0) {
			r.Fail(after+"/state/isempty", "after %s: IsEmpty()=%v", after, g)
			return
		}
		arr := r.real.AsArray()
		if !r.matches(arr) {
			r.Fail(after+"/state/array", "after %s: AsArray()=%s", after, assocStr(r.d, arr))
			return
		}
		fw, ok := WalkForward(r.real.GetIterator(), n+2)
		if !ok || !r.matches(fw) {
			r.Fail(after+"/state/iterate", "after %s: iteration=%s", after, assocStr(r.d, fw))
			return
		}
		keys := r.real.GetKeys().AsArray()
		if len(keys) != n {
			r.Fail(after+"/state/keys", "after %s: GetKeys() has %d keys, model %d", after, len(keys), n)
			return
		}
		for i, k := range keys {
			if k != r.model[i].k {
				r.Fail(after+"/state/keys", "after %s: GetKeys()[%d]=%s, model %s", after, i+1, r.d.Str(k), r.d.Str(r.model[i].k))
				return
			}
		}
		for _, k := range r.d.Pool {
			want := 0
			if i := r.find(k); i >= 0 {
				want = r.model[i].v
			}
			if g := r.real.GetValue(k); g != want {
				r.Fail(after+"/state/getvalue", "after %s: GetValue(%s)=%d, model %d", after, r.d.Str(k), g, want)
				return
			}
		}
		vals := r.real.GetValues(col.List[K](Notation).MakeFromArray(keys)).AsArray()
		if len(vals) != n {
			r.Fail(after+"/state/getvalues", "after %s: GetValues(all keys) has %d values", after, len(vals))
			return
		}
		for i, v := range vals {
			if v != r.model[i].v {
				r.Fail(after+"/state/getvalues", "after %s: GetValues(all keys)[%d]=%d, model %d", after, i+1, v, r.model[i].v)
				return
			}
		}
	})
}

func (r *c03run[K]) key(rng *core.Rng) K { return r.d.Pool[rng.Intn(len(r.d.Pool))] }

func (r *c03run[K]) keys(rng *core.Rng) ([]K, col.Sequential[K], string) {
	n := rng.Intn(5)
	ks := make([]K, n)
	for i := range ks {
		ks[i] = r.key(rng)
	}
	switch rng.Intn(4) {
	case 0:
		var cur []K
		var seq col.Sequential[K]
		Try(func() { seq = r.real.GetKeys(); cur = seq.AsArray() })
		if seq != nil {
			return cur, seq, "own-keys"
		}
		fallthrough
	case 1:
		return ks, &Spy[K]{Vals: Clone(ks)}, "spy"
	default:
		return ks, col.List[K](Notation).MakeFromArray(ks), "list"
	}
}

// adoptOrder accepts the real order after a sort/shuffle if it is a
// permutation of the model with the key->value mapping intact.
func (r *c03run[K]) adoptOrder(op string) {
	r.Guard(op, func() {
		arr := r.real.AsArray()
		if len(arr) != len(r.model) {
			r.Fail(op+"/not-a-permutation", "%s left %s", op, assocStr(r.d, arr))
			return
		}
		seen := map[K]bool{}
		nm := make([]kv[K], 0, len(arr))
		for _, a := range arr {
			if a == nil {
				r.Fail(op+"/not-a-permutation", "%s left a nil association", op)
				return
			}
			i := r.find(a.GetKey())
			if i < 0 || seen[a.GetKey()] || r.model[i].v != a.GetValue() {
				r.Fail(op+"/mapping-changed", "%s left %s", op, assocStr(r.d, arr))
				return
			}
			seen[a.GetKey()] = true
			nm = append(nm, r.model[i])
		}
		r.model = nm
	})
}

func (r *c03run[K]) step(rng *core.Rng) {
	ops := []string{"SetValue", "GetValue", "GetValues", "RemoveValue", "RemoveValues", "RemoveAll", "SortValues", "SortValuesWithRanker", "ReverseValues", "ShuffleValues"}
	op := ops[rng.Weighted([]int{12, 2, 2, 8, 3, 1, 2, 2, 2, 2})]
	before := r.modelStr()
	arg := ""
	returned := false
	switch op {
	case "SetValue":
		k, v := r.key(rng), rng.Intn(3)
		arg = fmt.Sprint(r.find(k) >= 0)
		r.Log("SetValue(%s,%d)", r.d.Str(k), v)
		if returned = r.Call(op, mustReturn, func() { r.real.SetValue(k, v) }); returned {
			r.set(k, v)
			r.muted = true
		}
	case "GetValue":
		k := r.key(rng)
		want := 0
		if i := r.find(k); i >= 0 {
			want = r.model[i].v
		}
		arg = fmt.Sprint(r.find(k) >= 0)
		r.Log("GetValue(%s)", r.d.Str(k))
		var got int
		if returned = r.Call(op, mustReturn, func() { got = r.real.GetValue(k) }); returned && got != want {
			r.Fail(op+"/wrong-value", "GetValue(%s)=%d, model %d", r.d.Str(k), got, want)
		}
	case "GetValues", "RemoveValues":
		ks, seq, kind := r.keys(rng)
		arg = kind
		r.Log("%s(%s %v)", op, kind, strs(r.d, ks))
		var got col.Sequential[int]
		if op == "GetValues" {
			returned = r.Call(op, mustReturn, func() { got = r.real.GetValues(seq) })
		} else {
			returned = r.Call(op, mustReturn, func() { got = r.real.RemoveValues(seq) })
		}
		if returned {
			want := make([]int, len(ks))
			for i, k := range ks {
				if op == "GetValues" {
					if j := r.find(k); j >= 0 {
						want[i] = r.model[j].v
					}
				} else {
					want[i] = r.del(k)
					r.muted = true
				}
			}
			var arr []int
			Try(func() { arr = got.AsArray() })
			if fmt.Sprint(arr) != fmt.Sprint(want) {
				r.Fail(op+"/wrong-values", "%s returned %v, model %v", op, arr, want)
			}
		}
	case "RemoveValue":
		k := r.key(rng)
		arg = fmt.Sprint(r.find(k) >= 0)
		r.Log("RemoveValue(%s)", r.d.Str(k))
		var got int
		if returned = r.Call(op, mustReturn, func() { got = r.real.RemoveValue(k) }); returned {
			want := r.del(k)
			r.muted = true
			if got != want {
				r.Fail(op+"/wrong-value", "RemoveValue(%s)=%d, model %d", r.d.Str(k), got, want)
			}
		}
	case "RemoveAll":
		r.Log("RemoveAll()")
		if returned = r.Call(op, mustReturn, func() { r.real.RemoveAll() }); returned {
			r.model = nil
			r.muted = true
		}
	case "SortValues":
		r.Log("SortValues()")
		if returned = r.Call(op, mustReturn, func() { r.real.SortValues() }); returned {
			r.adoptOrder(op)
		}
	case "SortValuesWithRanker":
		which := rng.Intn(3)
		arg = fmt.Sprint(which)
		var ranker age.RankingFunction[col.AssociationLike[K, int]]
		switch {
		case which == 0 && r.d.Less != nil:
			ranker = func(a, b col.AssociationLike[K, int]) age.Rank {
				switch {
				case r.d.Less(a.GetKey(), b.GetKey()):
					return age.LesserRank
				case r.d.Less(b.GetKey(), a.GetKey()):
					return age.GreaterRank
				}
				return age.EqualRank
			}
		case which == 1 && r.d.Less != nil:
			ranker = func(a, b col.AssociationLike[K, int]) age.Rank {
				switch {
				case r.d.Less(a.GetKey(), b.GetKey()):
					return age.GreaterRank
				case r.d.Less(b.GetKey(), a.GetKey()):
					return age.LesserRank
				}
				return age.EqualRank
			}
		default:
			ranker = func(a, b col.AssociationLike[K, int]) age.Rank {
				switch {
				case a.GetValue() < b.GetValue():
					return age.LesserRank
				case a.GetValue() > b.GetValue():
					return age.GreaterRank
				}
				return age.EqualRank
			}
		}
		r.Log("SortValuesWithRanker(#%d)", which)
		if returned = r.Call(op, mustReturn, func() { r.real.SortValuesWithRanker(ranker) }); returned {
			r.adoptOrder(op)
			// with a key/value ranker the result must also be ascending
			if !r.Failed {
				for i := 0; i+1 < len(r.model); i++ {
					a := col.Association[K, int](Notation).Make(r.model[i].k, r.model[i].v)
					b := col.Association[K, int](Notation).Make(r.model[i+1].k, r.model[i+1].v)
					if ranker(a, b) == age.GreaterRank {
						r.Fail(op+"/not-sorted", "SortValuesWithRanker(#%d) left %s", which, r.modelStr())
						break
					}
				}
			}
		}
	case "ReverseValues":
		r.Log("ReverseValues()")
		if returned = r.Call(op, mustReturn, func() { r.real.ReverseValues() }); returned {
			for i, j := 0, len(r.model)-1; i < j; i, j = i+1, j-1 {
				r.model[i], r.model[j] = r.model[j], r.model[i]
			}
			r.muted = r.muted || len(r.model) > 1
		}
	case "ShuffleValues":
		r.Log("ShuffleValues()")
		if returned = r.Call(op, mustReturn, func() { r.real.ShuffleValues() }); returned {
			r.adoptOrder(op)
		}
	}
	if r.Failed {
		return
	}
	r.observe(op)
	if r.srcCat != nil && !r.Failed {
		r.Guard(op, func() {
			if got := assocStr(r.d, r.srcCat.AsArray()); got != r.srcWant {
				r.Fail(op+"/constructor-argument-changed", "the catalog passed to MakeFromSequence changed: now %s, was %s", got, r.srcWant)
			}
		})
	}
	if r.muted {
		r.C.Cover("catalog." + op)
		r.C.Distinct(core.Mix(core.HashStr(r.d.Name), core.HashStr(before), core.HashStr(op+"/"+arg)))
	}
}

func strs[K comparable](d KeyDom[K], ks []K) []string {
	out := make([]string, len(ks))
	for i, k := range ks {
		out[i] = d.Str(k)
	}
	return out
}

func (r *c03run[K]) construct(rng *core.Rng) bool {
	C := col.Catalog[K, int](Notation)
	how := rng.Intn(5)
	n := rng.Intn(6)
	ks := make([]K, n)
	vs := make([]int, n)
	for i := range ks {
		ks[i], vs[i] = r.key(rng), rng.Intn(3)
	}
	A := col.Association[K, int](Notation)
	mkAssocs := func() []col.AssociationLike[K, int] {
		as := make([]col.AssociationLike[K, int], n)
		for i := range as {
			as[i] = A.Make(ks[i], vs[i])
		}
		return as
	}
	ok := r.Call("construct", mustReturn, func() {
		switch how {
		case 0:
			r.Log("Catalog.Make()")
			r.real = C.Make()
		case 1:
			r.Log("Catalog.MakeFromArray(%v %v)", strs(r.d, ks), vs)
			r.real = C.MakeFromArray(mkAssocs())
			for i := range ks {
				r.set(ks[i], vs[i])
			}
		case 2:
			m := map[K]int{}
			for i := range ks {
				m[ks[i]] = vs[i]
			}
			r.Log("Catalog.MakeFromMap(%d entries)", len(m))
			r.real = C.MakeFromMap(m)
			// any order of the map's entries is acceptable
			for k, v := range m {
				r.set(k, v)
			}
			r.adoptOrder("MakeFromMap")
		case 3:
			r.Log("Catalog.MakeFromSequence(list %v %v)", strs(r.d, ks), vs)
			r.real = C.MakeFromSequence(col.List[col.AssociationLike[K, int]](Notation).MakeFromArray(mkAssocs()))
			for i := range ks {
				r.set(ks[i], vs[i])
			}
		default:
			r.Log("Catalog.MakeFromSequence(catalog %v %v)", strs(r.d, ks), vs)
			src := C.MakeFromArray(mkAssocs())
			r.real = C.MakeFromSequence(src)
			r.srcCat, r.srcWant = src, assocStr(r.d, src.AsArray())
			for i := range ks {
				r.set(ks[i], vs[i])
			}
		}
	})
	if !ok {
		return false
	}
	r.C.Cover(fmt.Sprintf("catalog.construct.%d", how))
	r.observe("construct")
	return !r.Failed
}

func RunC03History[K comparable](c *core.Ctx, d KeyDom[K]) {
	r := &c03run[K]{d: d}
	r.Run = Run{C: c, Kind: "catalog", Meta: map[string]any{"keys": d.Name}}
	r.ModelStr = r.modelStr
	if !r.construct(c.Rng) {
		return
	}
	steps := c.Rng.Range(1, 40)
	for s := 0; s < steps && !r.Failed; s++ {
		r.step(c.Rng)
	}
	if !r.Failed && c.WantSample("catalog/"+d.Name) {
		c.Sample("catalog/"+d.Name, map[string]any{"history": r.Hist, "final": r.modelStr()})
	}
}

// ReproCatalogPointerKeys: removal by key with structurally equal pointer keys.
func ReproCatalogPointerKeys() (bool, string) {
	x, y := new(int), new(int) // distinct keys, equal pointees
	c := col.Catalog[*int, int](Notation).Make()
	c.SetValue(x, 1)
	c.SetValue(y, 1)
	c.RemoveValue(y)
	ks := c.GetKeys().AsArray()
	if len(ks) != 1 || ks[0] != x || c.GetValue(x) != 1 || c.GetValue(y) != 0 {
		return true, fmt.Sprintf("after SetValue(x,1); SetValue(y,1); RemoveValue(y): GetKeys holds y=%v, GetValue(x)=%d GetValue(y)=%d (x is gone from the order, y from the index)",
			len(ks) == 1 && ks[0] == y, c.GetValue(x), c.GetValue(y))
	}
	return false, "the association of exactly the removed key is deleted"
}
