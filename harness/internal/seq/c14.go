package seq

import (
	"fmt"
	"math"
	"sort"

	col "github.com/craterdog/go-collection-framework/v4/collection"

	"verif/harness/internal/core"
)

// ---- C14: Map against a Go map ----

type c14run[K comparable] struct {
	Run
	d     KeyDom[K]
	real  col.MapLike[K, int]
	model map[K]int
	muted bool
	// the Go map handed to MakeFromMap must stay what it was
	srcMap  map[K]int
	srcWant string
}

func (r *c14run[K]) modelStr() string { return r.canon(r.model) }

func (r *c14run[K]) canon(m map[K]int) string {
	var ss []string
	for k, v := range m {
		ss = append(ss, fmt.Sprintf("%s:%d", r.d.Str(k), v))
	}
	sort.Strings(ss)
	return fmt.Sprint(ss)
}

// assocsOnce converts an unordered association view to a map, reporting a
// repeated key.
func (r *c14run[K]) assocsOnce(as []col.AssociationLike[K, int]) (map[K]int, bool) {
	m := map[K]int{}
	for _, a := range as {
		if a == nil {
			return m, false
		}
		if _, dup := m[a.GetKey()]; dup {
			return m, false
		}
		m[a.GetKey()] = a.GetValue()
	}
	return m, true
}

func (r *c14run[K]) observe(after string) {
	r.Guard(after, func() {
		n := len(r.model)
		if g := r.real.GetSize(); g != n {
			r.Fail(after+"/state/size", "after %s: GetSize()=%d, model %d", after, g, n)
			return
		}
		if g := r.real.IsEmpty(); g != (n == 0) {
			r.Fail(after+"/state/isempty", "after %s: IsEmpty()=%v", after, g)
			return
		}
		want := r.modelStr()
		m, once := r.assocsOnce(r.real.AsArray())
		if !once || len(m) != n || r.canon(m) != want {
			r.Fail(after+"/state/array", "after %s: AsArray() = %s (each association exactly once: %v)", after, r.canon(m), once)
			return
		}
		fw, ok := WalkForward(r.real.GetIterator(), n+2)
		m, once = r.assocsOnce(fw)
		if !ok || !once || r.canon(m) != want {
			r.Fail(after+"/state/iterate", "after %s: iteration = %s", after, r.canon(m))
			return
		}
		// (keys are compared through their printed form so that a key which is not equal to
		// itself - a NaN - is handled like any other)
		ks := r.real.GetKeys().AsArray()
		var gk, mk []string
		for _, k := range ks {
			gk = append(gk, r.d.Str(k))
		}
		for k := range r.model {
			mk = append(mk, r.d.Str(k))
		}
		sort.Strings(gk)
		sort.Strings(mk)
		if fmt.Sprint(gk) != fmt.Sprint(mk) {
			r.Fail(after+"/state/keys", "after %s: GetKeys()=%v", after, strs(r.d, ks))
			return
		}
		for _, k := range r.d.Pool {
			if g := r.real.GetValue(k); g != r.model[k] {
				r.Fail(after+"/state/getvalue", "after %s: GetValue(%s)=%d, model %d", after, r.d.Str(k), g, r.model[k])
				return
			}
		}
	})
}

func (r *c14run[K]) key(rng *core.Rng) K { return r.d.Pool[rng.Intn(len(r.d.Pool))] }

func (r *c14run[K]) step(rng *core.Rng) {
	op := []string{"SetValue", "GetValue", "GetValues", "RemoveValue", "RemoveValues", "RemoveAll"}[rng.Weighted([]int{12, 2, 3, 7, 4, 1})]
	before := r.modelStr()
	arg := ""
	switch op {
	case "SetValue":
		k, v := r.key(rng), rng.Intn(3)
		_, in := r.model[k]
		arg = fmt.Sprint(in)
		r.Log("SetValue(%s,%d)", r.d.Str(k), v)
		if r.Call(op, mustReturn, func() { r.real.SetValue(k, v) }) {
			r.model[k] = v
			r.muted = true
		}
	case "GetValue":
		k := r.key(rng)
		_, in := r.model[k]
		arg = fmt.Sprint(in)
		r.Log("GetValue(%s)", r.d.Str(k))
		var got int
		if r.Call(op, mustReturn, func() { got = r.real.GetValue(k) }) && got != r.model[k] {
			r.Fail(op+"/wrong-value", "GetValue(%s)=%d, model %d", r.d.Str(k), got, r.model[k])
		}
	case "GetValues", "RemoveValues":
		n := rng.Intn(6)
		ks := make([]K, n)
		for i := range ks {
			ks[i] = r.key(rng)
		}
		var seq col.Sequential[K] = col.List[K](Notation).MakeFromArray(ks)
		arg = "list"
		if rng.Chance(1, 3) {
			seq = &Spy[K]{Vals: Clone(ks)}
			arg = "spy"
		} else if rng.Chance(1, 3) {
			Try(func() { seq = r.real.GetKeys(); ks = seq.AsArray() })
			arg = "own-keys"
		}
		r.Log("%s(%s %v)", op, arg, strs(r.d, ks))
		var got col.Sequential[int]
		ok := false
		if op == "GetValues" {
			ok = r.Call(op, mustReturn, func() { got = r.real.GetValues(seq) })
		} else {
			ok = r.Call(op, mustReturn, func() { got = r.real.RemoveValues(seq) })
		}
		if ok {
			want := make([]int, len(ks))
			for i, k := range ks {
				want[i] = r.model[k]
				if op == "RemoveValues" {
					delete(r.model, k)
					r.muted = true
				}
			}
			var arr []int
			Try(func() { arr = got.AsArray() })
			if fmt.Sprint(arr) != fmt.Sprint(want) {
				r.Fail(op+"/wrong-values", "%s returned %v, model %v", op, arr, want)
			}
		}
	case "RemoveValue":
		k := r.key(rng)
		_, in := r.model[k]
		arg = fmt.Sprint(in)
		r.Log("RemoveValue(%s)", r.d.Str(k))
		var got int
		if r.Call(op, mustReturn, func() { got = r.real.RemoveValue(k) }) {
			if got != r.model[k] {
				r.Fail(op+"/wrong-value", "RemoveValue(%s)=%d, model %d", r.d.Str(k), got, r.model[k])
			}
			delete(r.model, k)
			r.muted = true
		}
	case "RemoveAll":
		// hold a key snapshot and an iterator across the reset
		var ks col.Sequential[K]
		var keysBefore []K
		r.Guard(op, func() { ks = r.real.GetKeys(); keysBefore = ks.AsArray() })
		it := r.real.GetIterator()
		wantIter := r.modelStr()
		r.Log("RemoveAll() while holding a key snapshot and an iterator")
		if r.Call(op, mustReturn, func() { r.real.RemoveAll() }) {
			r.model = map[K]int{}
			r.muted = true
			r.Guard(op, func() {
				if fmt.Sprint(strs(r.d, ks.AsArray())) != fmt.Sprint(strs(r.d, keysBefore)) {
					r.Fail(op+"/key-snapshot-changed", "the key sequence obtained before RemoveAll changed: %v", strs(r.d, ks.AsArray()))
					return
				}
				fw, _ := WalkForward(it, len(keysBefore)+2)
				m, once := r.assocsOnce(fw)
				if !once || r.canon(m) != wantIter {
					r.Fail(op+"/iterator-changed", "the iterator obtained before RemoveAll now yields %s, expected %s", r.canon(m), wantIter)
				}
			})
		}
	}
	if r.Failed {
		return
	}
	r.observe(op)
	if r.srcMap != nil && r.canon(r.srcMap) != r.srcWant {
		r.Fail(op+"/constructor-argument-changed", "the Go map passed to MakeFromMap changed: now %s, was %s", r.canon(r.srcMap), r.srcWant)
		return
	}
	r.C.Cover("map." + op)
	if r.muted {
		r.C.Distinct(core.Mix(core.HashStr(r.d.Name), core.HashStr(before), core.HashStr(op+"/"+arg)))
	}
}

func (r *c14run[K]) construct(rng *core.Rng) bool {
	M := col.Map[K, int](Notation)
	A := col.Association[K, int](Notation)
	how := rng.Intn(5)
	n := rng.Intn(7)
	ks := make([]K, n)
	vs := make([]int, n)
	as := make([]col.AssociationLike[K, int], n)
	want := map[K]int{}
	for i := range ks {
		ks[i], vs[i] = r.key(rng), rng.Intn(3)
		as[i] = A.Make(ks[i], vs[i])
		want[ks[i]] = vs[i] // the last one wins
	}
	r.model = map[K]int{}
	ok := r.Call("construct", mustReturn, func() {
		switch how {
		case 0:
			r.Log("Map.Make()")
			r.real = M.Make()
			return
		case 1:
			r.Log("Map.MakeFromArray(%v %v)", strs(r.d, ks), vs)
			if n == 0 && rng.Chance(1, 2) {
				r.Log("(the Go array is nil)")
				as = nil
			}
			r.real = M.MakeFromArray(as)
		case 2:
			r.Log("Map.MakeFromMap(%s)", r.canon(want))
			src := map[K]int{}
			for k, v := range want {
				src[k] = v
			}
			if n == 0 && rng.Chance(1, 2) {
				// an uninitialised Go map is an empty Go map
				r.Log("(the Go map is nil)")
				r.real = M.MakeFromMap(nil)
				r.C.Cover("map.construct.nil-go-map")
				break
			}
			r.real = M.MakeFromMap(src)
			r.srcMap, r.srcWant = src, r.canon(src)
		case 3:
			r.Log("Map.MakeFromSequence(list %v %v)", strs(r.d, ks), vs)
			r.real = M.MakeFromSequence(col.List[col.AssociationLike[K, int]](Notation).MakeFromArray(as))
		default:
			r.Log("Map.MakeFromSequence(catalog %v %v)", strs(r.d, ks), vs)
			r.real = M.MakeFromSequence(col.Catalog[K, int](Notation).MakeFromArray(as))
		}
		r.model = want
	})
	if !ok {
		return false
	}
	r.C.Cover(fmt.Sprintf("map.construct.%d", how))
	r.observe("construct")
	return !r.Failed
}

func RunC14History[K comparable](c *core.Ctx, d KeyDom[K]) {
	r := &c14run[K]{d: d}
	r.Run = Run{C: c, Kind: "map", Meta: map[string]any{"keys": d.Name}}
	r.ModelStr = r.modelStr
	if !r.construct(c.Rng) {
		return
	}
	steps := c.Rng.Range(1, 40)
	for s := 0; s < steps && !r.Failed; s++ {
		r.step(c.Rng)
	}
	if !r.Failed && c.WantSample("map/"+d.Name) {
		c.Sample("map/"+d.Name, map[string]any{"history": r.Hist, "final": r.modelStr()})
	}
}

// ReproMapRemoveAllNaN: RemoveAll on a Map holding a NaN key.
func ReproMapRemoveAllNaN() (bool, string) {
	m := col.Map[float64, int](Notation).Make()
	m.SetValue(math.NaN(), 1)
	m.SetValue(1.5, 2)
	m.RemoveAll()
	if m.GetSize() != 0 || !m.IsEmpty() || len(m.AsArray()) != 0 {
		return true, fmt.Sprintf("after RemoveAll a Map[float64,int] that held a NaN key reports GetSize()=%d", m.GetSize())
	}
	return false, "RemoveAll empties a Map holding a NaN key"
}
