package seq

import (
	"fmt"

	col "github.com/craterdog/go-collection-framework/v4/collection"

	"verif/harness/internal/core"
)

// ---- C16: Concatenate, Merge, Extract ----

func c16fail(c *core.Ctx, sig string, cs any, format string, a ...any) {
	c.Violation("c16."+sig, fmt.Sprintf(format, a...), cs)
}

// CheckConcatenate: result, operand purity, independence, aliasing.
func CheckConcatenate(c *core.Ctx, x, y []int, aliased bool) {
	cs := map[string]any{"a": fmt.Sprint(x), "b": fmt.Sprint(y), "aliased": aliased}
	L := col.List[int](Notation)
	pan, noret, msg := Try(func() {
		a := L.MakeFromArray(x)
		b := a
		if !aliased {
			b = L.MakeFromArray(y)
		} else {
			y = x
		}
		r := L.Concatenate(a, b)
		want := append(Clone(x), y...)
		if fmt.Sprint(r.AsArray()) != fmt.Sprint(want) {
			c16fail(c, "Concatenate/wrong-result", cs, "Concatenate=%v, expected %v", r.AsArray(), want)
			return
		}
		if r == a || r == b {
			c16fail(c, "Concatenate/result-is-operand", cs, "Concatenate returned one of its operands")
			return
		}
		if fmt.Sprint(a.AsArray()) != fmt.Sprint(x) || fmt.Sprint(b.AsArray()) != fmt.Sprint(y) {
			c16fail(c, "Concatenate/operand-changed", cs, "operands now %v and %v", a.AsArray(), b.AsArray())
			return
		}
		// independence both ways; one change at a time, the ones that work in place first
		// (a change of size makes a list re-allocate, which would hide shared storage)
		xs, ys := fmt.Sprint(x), fmt.Sprint(y)
		var onResult []func() string
		if len(want) > 0 {
			onResult = append(onResult,
				func() string { r.SetValue(1, 98); return "SetValue(1)" },
				func() string { r.SetValue(-1, 94); return "SetValue(-1)" },
				func() string { r.ReverseValues(); return "ReverseValues" },
				func() string { r.SortValues(); return "SortValues" },
				func() string { r.SetValues(1, L.MakeFromArray([]int{93})); return "SetValues(1)" })
		}
		onResult = append(onResult,
			func() string { r.AppendValue(99); return "AppendValue" },
			func() string { r.RemoveValue(-1); return "RemoveValue(-1)" },
			func() string { r.InsertValue(0, 92); return "InsertValue(0)" })
		for _, f := range onResult {
			what := f()
			if fmt.Sprint(a.AsArray()) != xs || fmt.Sprint(b.AsArray()) != ys {
				c16fail(c, "Concatenate/shared-state", cs, "%s on the result changed an operand: %v %v", what, a.AsArray(), b.AsArray())
				return
			}
		}
		after := fmt.Sprint(r.AsArray())
		var onOperands []func() string
		if len(x) > 0 {
			onOperands = append(onOperands,
				func() string { a.SetValue(1, 91); return "a.SetValue(1)" },
				func() string { a.ReverseValues(); return "a.ReverseValues" })
		}
		if len(y) > 0 {
			onOperands = append(onOperands,
				func() string { b.SetValue(-1, 95); return "b.SetValue(-1)" },
				func() string { b.ReverseValues(); return "b.ReverseValues" })
		}
		onOperands = append(onOperands,
			func() string { a.AppendValue(97); return "a.AppendValue" },
			func() string { b.InsertValue(0, 96); return "b.InsertValue(0)" })
		for _, f := range onOperands {
			what := f()
			if fmt.Sprint(r.AsArray()) != after {
				c16fail(c, "Concatenate/shared-state", cs, "%s changed the result: %v", what, r.AsArray())
				return
			}
		}
	})
	if pan || noret {
		c16fail(c, "Concatenate/panicked", cs, "panicked: %s", msg)
	}
	c.Cover("concatenate")
	c.Distinct(core.Mix(1, core.HashStr(fmt.Sprint(x, y, aliased))))
	if c.WantSample("concatenate") {
		c.Sample("concatenate", cs)
	}
}

type skv struct {
	k string
	v int
}

func catOf(es []skv) col.CatalogLike[string, int] {
	c := col.Catalog[string, int](Notation).Make()
	for _, e := range es {
		c.SetValue(e.k, e.v)
	}
	return c
}

func catStr(c col.CatalogLike[string, int]) string {
	s := "["
	for i, a := range c.AsArray() {
		if i > 0 {
			s += " "
		}
		s += fmt.Sprintf("%s:%d", a.GetKey(), a.GetValue())
	}
	return s + "]"
}

func skvStr(es []skv) string {
	s := "["
	for i, e := range es {
		if i > 0 {
			s += " "
		}
		s += fmt.Sprintf("%s:%d", e.k, e.v)
	}
	return s + "]"
}

// coherent: the views of a catalog agree with the expected entries.
func coherent(c col.CatalogLike[string, int], want []skv, pool []string) bool {
	if catStr(c) != skvStr(want) || c.GetSize() != len(want) {
		return false
	}
	ks := c.GetKeys().AsArray()
	if len(ks) != len(want) {
		return false
	}
	for i, k := range ks {
		if k != want[i].k {
			return false
		}
	}
	for _, k := range pool {
		w := 0
		for _, e := range want {
			if e.k == k {
				w = e.v
			}
		}
		if c.GetValue(k) != w {
			return false
		}
	}
	return true
}

func CheckMerge(c *core.Ctx, x, y []skv, aliased bool, pool []string) {
	cs := map[string]any{"first": skvStr(x), "second": skvStr(y), "aliased": aliased}
	C := col.Catalog[string, int](Notation)
	pan, noret, msg := Try(func() {
		a := catOf(x)
		b := a
		if aliased {
			y = x
		} else {
			b = catOf(y)
		}
		r := C.Merge(a, b)
		// model
		want := append([]skv{}, x...)
		for _, e := range y {
			found := false
			for i := range want {
				if want[i].k == e.k {
					want[i].v = e.v
					found = true
				}
			}
			if !found {
				want = append(want, e)
			}
		}
		if !coherent(r, want, pool) {
			c16fail(c, "Merge/wrong-result", cs, "Merge=%s, expected %s", catStr(r), skvStr(want))
			return
		}
		if r == a || r == b {
			c16fail(c, "Merge/result-is-operand", cs, "Merge returned one of its operands")
			return
		}
		if !coherent(a, x, pool) || !coherent(b, y, pool) {
			c16fail(c, "Merge/operand-changed", cs, "operands now %s and %s", catStr(a), catStr(b))
			return
		}
		// no shared association objects: write through the result's associations
		for _, as := range r.AsArray() {
			as.SetValue(as.GetValue() + 1000)
		}
		r.SetValue("new", 5)
		if len(want) > 0 {
			r.RemoveValue(want[0].k)
		}
		if !coherent(a, x, pool) || !coherent(b, y, pool) {
			c16fail(c, "Merge/shared-state", cs, "writing through the result changed an operand: %s %s", catStr(a), catStr(b))
			return
		}
		after := catStr(r)
		for _, as := range a.AsArray() {
			as.SetValue(as.GetValue() + 2000)
		}
		for _, as := range b.AsArray() {
			as.SetValue(as.GetValue() + 3000)
		}
		a.SetValue("other", 1)
		b.RemoveAll()
		if catStr(r) != after {
			c16fail(c, "Merge/shared-state", cs, "writing through an operand changed the result: %s", catStr(r))
		}
	})
	if pan || noret {
		c16fail(c, "Merge/panicked", cs, "panicked: %s", msg)
	}
	c.Cover("merge")
	c.Distinct(core.Mix(2, core.HashStr(fmt.Sprint(x, y, aliased))))
	if c.WantSample("merge") {
		c.Sample("merge", cs)
	}
}

func CheckExtract(c *core.Ctx, x []skv, keys []string, seqKind int, pool []string) {
	cs := map[string]any{"catalog": skvStr(x), "keys": fmt.Sprint(keys), "key_sequence_kind": seqKind}
	C := col.Catalog[string, int](Notation)
	pan, noret, msg := Try(func() {
		a := catOf(x)
		var ks col.Sequential[string]
		switch seqKind {
		case 0:
			ks = col.List[string](Notation).MakeFromArray(keys)
		case 1:
			ks = &Spy[string]{Vals: Clone(keys)}
		default:
			ks = a.GetKeys()
			keys = ks.AsArray()
		}
		r := C.Extract(a, ks)
		var want []skv
		for _, k := range keys {
			dup := false
			for _, w := range want {
				if w.k == k {
					dup = true
				}
			}
			if dup {
				continue
			}
			for _, e := range x {
				if e.k == k {
					want = append(want, e)
				}
			}
		}
		// a key that was requested twice: first or last requested position
		var wantLast []skv
		for i := len(keys) - 1; i >= 0; i-- {
			dup := false
			for _, w := range wantLast {
				if w.k == keys[i] {
					dup = true
				}
			}
			if dup {
				continue
			}
			for _, e := range x {
				if e.k == keys[i] {
					wantLast = append([]skv{e}, wantLast...)
				}
			}
		}
		if !coherent(r, want, pool) {
			if !coherent(r, wantLast, pool) {
				c16fail(c, "Extract/wrong-result", cs, "Extract=%s, expected %s", catStr(r), skvStr(want))
				return
			}
			want = wantLast
		}
		if r == a {
			c16fail(c, "Extract/result-is-operand", cs, "Extract returned its operand")
			return
		}
		if !coherent(a, x, pool) {
			c16fail(c, "Extract/operand-changed", cs, "catalog now %s", catStr(a))
			return
		}
		if l, ok := ks.(col.ListLike[string]); ok && fmt.Sprint(l.AsArray()) != fmt.Sprint(keys) {
			c16fail(c, "Extract/operand-changed", cs, "key sequence now %v", l.AsArray())
			return
		}
		for _, as := range r.AsArray() {
			as.SetValue(as.GetValue() + 1000)
		}
		r.SetValue("new", 5)
		if !coherent(a, x, pool) {
			c16fail(c, "Extract/shared-state", cs, "writing through the result changed the catalog: %s", catStr(a))
			return
		}
		after := catStr(r)
		for _, as := range a.AsArray() {
			as.SetValue(as.GetValue() + 2000)
		}
		a.RemoveAll()
		if catStr(r) != after {
			c16fail(c, "Extract/shared-state", cs, "writing through the catalog changed the result: %s", catStr(r))
		}
	})
	if pan || noret {
		c16fail(c, "Extract/panicked", cs, "panicked: %s", msg)
	}
	c.Cover("extract")
	c.Distinct(core.Mix(3, core.HashStr(fmt.Sprint(x, keys, seqKind))))
	if c.WantSample("extract") {
		c.Sample("extract", cs)
	}
}

// ---- enumerations ----

// allLists: lists over {0,1,2} up to length 4 (121 lists).
func allLists() [][]int {
	out := [][]int{{}}
	cur := [][]int{{}}
	for l := 1; l <= 4; l++ {
		var next [][]int
		for _, p := range cur {
			for v := 0; v < 3; v++ {
				next = append(next, append(Clone(p), v))
			}
		}
		out = append(out, next...)
		cur = next
	}
	return out
}

// orderedSubsets of keys (65 for 4 keys).
func orderedSubsets(keys []string) [][]string {
	out := [][]string{{}}
	var rec func(cur []string, used int)
	rec = func(cur []string, used int) {
		for i, k := range keys {
			if used>>i&1 == 1 {
				continue
			}
			nx := append(Clone(cur), k)
			out = append(out, nx)
			rec(nx, used|1<<i)
		}
	}
	rec(nil, 0)
	return out
}

var (
	c16lists   = allLists()
	c16keys    = []string{"a", "b", "c", "d"}
	c16subsets = orderedSubsets(c16keys)
	c16pool    = []string{"a", "b", "c", "d", "zz", "new", "other"}
)

const (
	C16ConcatCases  = 121 * 121
	C16MergeCases   = 65 * 65
	C16ExtractCases = 65 * 156
)

func RunC16Concat(c *core.Ctx, idx int) {
	x, y := c16lists[idx/121], c16lists[idx%121]
	CheckConcatenate(c, x, y, false)
	if idx/121 == idx%121 {
		CheckConcatenate(c, x, x, true)
	}
}

func RunC16Merge(c *core.Ctx, idx int) {
	kx, ky := c16subsets[idx/65], c16subsets[idx%65]
	var x, y []skv
	for i, k := range kx {
		x = append(x, skv{k, i}) // includes the zero value under a present key
	}
	for i, k := range ky {
		y = append(y, skv{k, 10 + i})
	}
	CheckMerge(c, x, y, false, c16pool)
	if idx/65 == idx%65 {
		CheckMerge(c, x, x, true, c16pool)
	}
}

// key sequences of length 0..3 over {a,b,c,d,zz}: 1+5+25+125 = 156
func keySeq(n int) []string {
	u := []string{"a", "b", "c", "d", "zz"}
	if n == 0 {
		return []string{}
	}
	n--
	for l := 1; l <= 3; l++ {
		cnt := 1
		for i := 0; i < l; i++ {
			cnt *= 5
		}
		if n < cnt {
			out := make([]string, l)
			for i := l - 1; i >= 0; i-- {
				out[i] = u[n%5]
				n /= 5
			}
			return out
		}
		n -= cnt
	}
	return nil
}

func RunC16Extract(c *core.Ctx, idx int) {
	kx := c16subsets[idx/156]
	keys := keySeq(idx % 156)
	var x []skv
	for i, k := range kx {
		x = append(x, skv{k, i}) // first key maps to the zero value
	}
	CheckExtract(c, x, keys, idx%2, c16pool)
	if idx%156 == 0 {
		CheckExtract(c, x, nil, 2, c16pool) // the catalog's own key view
	}
}

func RunC16Random(c *core.Ctx) {
	r := c.Rng
	pool := []string{"a", "b", "c", "d", "e", "f", "g", "h", "zz", "new", "other"}
	gen := func() []skv {
		n := r.Intn(9)
		var es []skv
		for i := 0; i < n; i++ {
			k := pool[r.Intn(8)]
			dup := false
			for _, e := range es {
				if e.k == k {
					dup = true
				}
			}
			if !dup {
				es = append(es, skv{k, r.Intn(3)})
			}
		}
		return es
	}
	switch r.Intn(3) {
	case 0:
		n, m := r.Intn(30), r.Intn(30)
		x, y := make([]int, n), make([]int, m)
		for i := range x {
			x[i] = r.Intn(5)
		}
		for i := range y {
			y[i] = r.Intn(5)
		}
		CheckConcatenate(c, x, y, r.Chance(1, 8))
	case 1:
		CheckMerge(c, gen(), gen(), r.Chance(1, 8), pool)
	default:
		n := r.Intn(10)
		keys := make([]string, n)
		for i := range keys {
			keys[i] = pool[r.Intn(9)]
		}
		CheckExtract(c, gen(), keys, r.Intn(3), pool)
	}
}

func ReproExtractAbsent() (bool, string) {
	c := catOf([]skv{{"a", 1}})
	r := col.Catalog[string, int](Notation).Extract(c, col.List[string](Notation).MakeFromArray([]string{"zz", "a"}))
	if r.GetSize() != 1 {
		return true, "Extract({a:1}, [zz a]) = " + catStr(r) + " (an association was invented for the absent key zz)"
	}
	return false, "Extract({a:1}, [zz a]) = " + catStr(r)
}
