package props

import (
	"verif/harness/internal/cdcnmon"
	"verif/harness/internal/core"
)

func init() {
	core.Register(&core.Property{
		ID:    "C10",
		Title: "CDCN round trip: parsing formatted output reproduces value and text",
		Rule: "A recursive value generator over the canonical universe (float64 magnitude classes incl. 1-3 digit exponents, subnormals, -0.0; 64-bit integer boundaries; rune classes incl. control, quote, backslash, astral, non-printable; strings with every escape class and invalid UTF-8; the seven kinds, sizes 0..40, nesting 0..7, Queues <= 16) builds any-typed collections; " +
			"each is formatted, parsed, compared as a canonical tree (kind tags from the public interfaces, leaves bit-exact, Maps as key->value sets) and formatted again (exact text fix-point, or multiset of lines when a multi-entry Map occurs). Every corner leaf is additionally placed alone in each kind and as key and value. Narrow numeric widths and collections whose element type is not `any` (five sequence kinds x twelve element types, Catalog/Map x four key/value pairings; the formatter recognises them by another route): the parsed tree must equal the tree of the collection of `any` built from the same values widened to int64/uint64/float64/complex128 (exact numeric values), and String() must give the same text. " +
			"Totality: rings of self-containing collections (length 1..3, six kinds, 0/1/3 siblings) and acyclic nests of depth 12 must format (FormatValue and String()) with the elision marker; purity: random sequences of successful and failing FormatValue calls and of rejected ParseSource calls on one notation/formatter against a fresh notation, with the round trip repeated on that much-used notation. " +
			"distinct_nontrivial = distinct canonical trees / call histories.",
		Assumptions: []string{
			"'compares equal' is decided structurally as the statement spells it out (kinds, order, pairing, exact values), not by CompareValues, whose behaviour for operands of different static element types is outside C07/C08",
			"NaN and infinities are outside the universe (finite floats and complex numbers)",
			"invalid code points are not used as runes",
			"Queues stay within their default capacity (larger ones are C05's)",
		},
		Engines: []*core.Engine{
			{Name: "roundtrip/generated", Count: core.FixedCount(60000, 1500000), Run: func(c *core.Ctx, idx int) { cdcnmon.RunC10Values(c) }, BlockIsViolation: true},
			{Name: "roundtrip/leaf-corners", Count: core.FixedCount(cdcnmon.C10LeafCases(), cdcnmon.C10LeafCases()), Run: cdcnmon.RunC10Leaves, BlockIsViolation: true},
			{Name: "roundtrip/narrow-widths", Count: core.FixedCount(5000, 100000), Run: func(c *core.Ctx, idx int) { cdcnmon.RunC10Narrow(c) }, BlockIsViolation: true},
			{Name: "roundtrip/typed-collections", Count: core.FixedCount(12000, 300000), CPULimit: 120, Run: func(c *core.Ctx, idx int) { cdcnmon.RunC10Typed(c) }, BlockIsViolation: true},
			{Name: "totality/cyclic-and-deep", Count: core.FixedCount(cdcnmon.C10TotalityCases(), cdcnmon.C10TotalityCases()), Run: cdcnmon.RunC10Totality},
			{Name: "totality/elision-model", Count: core.FixedCount(15000, 300000), Run: func(c *core.Ctx, idx int) { cdcnmon.RunC10Elision(c) }},
			{Name: "purity/call-sequences", Count: core.FixedCount(6000, 150000), Run: func(c *core.Ctx, idx int) { cdcnmon.RunC10Purity(c) }},
		},
		Repro: map[string]func() (bool, string){
			"c10.float-exponent":       cdcnmon.ReproFloatExponent,
			"c10.format-after-failure": cdcnmon.ReproFormatAfterFailure,
			"c10.self-containing":      cdcnmon.ReproSelfContaining,
			"c10.self-association":     cdcnmon.ReproSelfAssociationFormat,
		},
	})
}
