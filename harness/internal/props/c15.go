package props

import (
	"fmt"
	"sync"

	col "github.com/craterdog/go-collection-framework/v4/collection"

	"verif/harness/internal/core"
	"verif/harness/internal/seq"
)

func init() {
	p := &core.Property{
		ID:    "C15",
		Title: "Set algebra equals intersection, union, difference and symmetric difference",
		Rule: "Exhaustive: all 4096 pairs of subsets of a 6-value universe x {And, Or, Sans, Xor} for int and string elements under the default collator (plus every (A,A) pair passed aliased), and for int under harness-supplied reversed and coarse collators; " +
			"random pairs (subset, superset, equal-content, disjoint-ish, aliased) over larger universes and over []int, nested sets and any. Expected results are computed on Go slices; the result must be strictly ascending, consist of operand values, be a new set; operands are re-observed after the call, " +
			"after mutating the result, and the result after mutating the operands. distinct_nontrivial = distinct (element type, collator, operation, A, B, aliased).",
		Assumptions: []string{"both operands carry the same collator", "which of two collator-equal values ends up in the result is not constrained beyond being a value of an operand"},
	}
	intD := seq.IntDom(8)
	intD.Name = "int"
	strD := seq.StringDom(9)
	strD.Name = "string"
	freshInt := func(r *core.Rng) int { return 1000 + r.Intn(1000) }
	freshStr := func(r *core.Rng) string { return fmt.Sprintf("zz%d", r.Intn(1000)) }
	uI := []int{0, 1, 2, 3, 4, 5}
	uS := []string{"", "a", "ab", "b", "ba", "c"}
	coarseI := func(a, b int) int { return a/2 - b/2 }
	ex := func(name string, run func(c *core.Ctx, idx int)) *core.Engine {
		return &core.Engine{Name: name, Count: core.FixedCount(4096, 4096), Run: run, Exhaustive: true}
	}
	p.Engines = append(p.Engines,
		ex("algebra/exhaustive/int/default", func(c *core.Ctx, idx int) { seq.RunC15Exhaustive(c, idx, intD, uI, "default", nil, freshInt) }),
		ex("algebra/exhaustive/string/default", func(c *core.Ctx, idx int) { seq.RunC15Exhaustive(c, idx, strD, uS, "default", nil, freshStr) }),
		ex("algebra/exhaustive/int/reversed", func(c *core.Ctx, idx int) { seq.RunC15Exhaustive(c, idx, intD, uI, "reversed", nil, freshInt) }),
		ex("algebra/exhaustive/int/coarse", func(c *core.Ctx, idx int) { seq.RunC15Exhaustive(c, idx, intD, uI, "coarse", coarseI, freshInt) }),
	)
	rnd := func(name string, q, t int, run func(c *core.Ctx)) *core.Engine {
		return &core.Engine{Name: name, Count: core.FixedCount(q, t), Run: func(c *core.Ctx, idx int) { run(c) }}
	}
	bigI := seq.IntDom(40)
	bigI.Name = "int40"
	slD := seq.SliceDom(3)
	anyI := seq.AnyDom(0, 12)
	anyS := seq.AnyDom(1, 12)
	// nested sets are built lazily inside the worker (no repository code at init)
	mk := func(vs ...int) col.SetLike[int] { return col.Set[int](seq.Notation).MakeFromArray(vs) }
	var poolOnce sync.Once
	var nestedPool []col.SetLike[int]
	pool := func() []col.SetLike[int] {
		poolOnce.Do(func() {
			nestedPool = []col.SetLike[int]{mk(), mk(0), mk(1), mk(0, 1), mk(2), mk(0, 2), mk(0, 1, 2), mk(3), mk(1, 3)}
		})
		return nestedPool
	}
	nd := seq.Dom[col.SetLike[int]]{
		Name: "SetLike[int]",
		Gen:  func(r *core.Rng) col.SetLike[int] { return pool()[r.Intn(len(pool()))] },
		Same: func(a, b col.SetLike[int]) bool { return a == b },
		Less: func(a, b col.SetLike[int]) bool {
			x, y := a.AsArray(), b.AsArray()
			for i := 0; i < len(x) && i < len(y); i++ {
				if x[i] != y[i] {
					return x[i] < y[i]
				}
			}
			return len(x) < len(y)
		},
		Str: func(v col.SetLike[int]) string { return fmt.Sprint(v.AsArray()) },
	}
	p.Engines = append(p.Engines,
		rnd("algebra/random/int40/default", 20000, 300000, func(c *core.Ctx) { seq.RunC15Random(c, bigI, "default", nil, freshInt) }),
		rnd("algebra/random/int40/reversed", 8000, 100000, func(c *core.Ctx) { seq.RunC15Random(c, bigI, "reversed", nil, freshInt) }),
		rnd("algebra/random/int40/coarse", 8000, 100000, func(c *core.Ctx) {
			seq.RunC15Random(c, bigI, "coarse", func(a, b int) int { return (a+20)/4 - (b+20)/4 }, freshInt)
		}),
		rnd("algebra/random/[]int/default", 10000, 150000, func(c *core.Ctx) {
			seq.RunC15Random(c, slD, "default", nil, func(r *core.Rng) []int { return []int{9, r.Intn(100)} })
		}),
		rnd("algebra/random/any-int/default", 8000, 100000, func(c *core.Ctx) {
			seq.RunC15Random(c, anyI, "default", nil, func(r *core.Rng) any { return 1000 + r.Intn(100) })
		}),
		rnd("algebra/random/any-string/default", 8000, 100000, func(c *core.Ctx) {
			seq.RunC15Random(c, anyS, "default", nil, func(r *core.Rng) any { return fmt.Sprintf("zz%d", r.Intn(100)) })
		}),
		rnd("algebra/random/nested-sets/default", 8000, 100000, func(c *core.Ctx) {
			seq.RunC15Random(c, nd, "default", nil, func(r *core.Rng) col.SetLike[int] { return mk(7, 8, r.Intn(100)) })
		}),
	)
	core.Register(p)
}
