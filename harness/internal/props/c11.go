package props

import (
	"verif/harness/internal/cdcnmon"
	"verif/harness/internal/conc"
	"verif/harness/internal/core"
)

// ExploreParse adapts the controlled scheduler to the CDCN monitor.
func ExploreParse(src string, budget, maxPreempt int, check func(value any, pan any) string) (int, string, []string) {
	return conc.ExploreParse(src, budget, maxPreempt, func(r *conc.ParseResult) string { return check(r.Value, r.Panic) })
}

func grammarGuard(c *core.Ctx) bool {
	if ok, h := cdcnmon.GrammarUnchanged(); !ok {
		c.Inconclusive("the rule section of Syntax.cdsn changed (hash " + h + "): the derivation generator no longer encodes the published grammar")
		return false
	}
	return true
}

func init() {
	core.Register(&core.Property{
		ID:    "C11",
		Title: "Every sentence of the CDCN grammar is accepted with its intended meaning",
		Rule: "A derivation generator that encodes the rules of Syntax.cdsn (hash-checked at run time) emits sentences together with their denotation computed independently (strconv on every literal with Go semantics; Set = sorted distinct, Catalog/Map = first position / last value); the parsed collection's canonical tree must equal the denotation. " +
			"Exhaustive: every document with 0..2 items drawn from 8 literal forms + 21 nested collections, for the 5 sequence kinds and (with 4 key forms) the 2 associative kinds, inline and multi-line. Random derivations to depth 3 and up to 40 items (token streams shorter and longer than the 16-token queue, optional spaces, any indentation, trailing EOLs), each parsed 4 (quick) / 12 (thorough) times with the queue hooks injecting yields/sleeps/spins between scanner and parser and GOMAXPROCS cycling through 1..16: all results identical; in addition the scanner goroutine is adopted by the controlled scheduler (spawn/end hooks) and for small sentences the schedules of scanner and parser are explored depth-first with at most two preemptions (150 / 1000 per sentence): every schedule must end with nobody left parked and with the denotation. " +
			"Boundary literals that cannot be represented (out-of-range integers/hex/floats, ill-formed escapes) in every kind and position must be rejected with a located diagnostic. distinct_nontrivial = distinct sentences.",
		Assumptions: []string{
			"unescaped ' and \\ inside rune and string literals and doubly signed imaginary parts are not generated (the published grammar is ambiguous there)",
			"space characters between tokens are insignificant (the formatter itself emits them)",
			"Queue literals stay within the default capacity (larger ones are C05's)",
		},
		Repro: map[string]func() (bool, string){"c11.conversion-errors": cdcnmon.ReproConversionErrors},
		Engines: []*core.Engine{
			{Name: "derivations/exhaustive-small", Count: core.FixedCount(cdcnmon.C11ExhaustiveCases(), cdcnmon.C11ExhaustiveCases()), Exhaustive: true, BlockIsViolation: true,
				Run: func(c *core.Ctx, idx int) {
					if idx == 0 && !grammarGuard(c) {
						return
					}
					cdcnmon.RunC11Exhaustive(c, idx)
				}},
			{Name: "derivations/random", Count: core.FixedCount(12000, 100000), BlockIsViolation: true, CPULimit: 60,
				Run: func(c *core.Ctx, idx int) { cdcnmon.RunC11Random(c, idx) }},
			{Name: "derivations/race-detector-sample", Count: core.FixedCount(3000, 60000), Race: true, MaxWorkers: 8, CPULimit: 120,
				Run: func(c *core.Ctx, idx int) { cdcnmon.RunC11Race(c) }},
			{Name: "derivations/reused-notation", Count: core.FixedCount(5000, 150000), BlockIsViolation: true,
				Run: func(c *core.Ctx, idx int) { cdcnmon.RunReusedNotation(c, "C11") }},
			{Name: "m1/scanner-parser-schedules", Pool: "m1", Count: core.FixedCount(400, 2000), CPULimit: 600,
				Run: func(c *core.Ctx, idx int) {
					if conc.M1Disabled(c) {
						return
					}
					cdcnmon.RunC11M1(c, false, ExploreParse)
					for k, n := range conc.AbandonedParses {
						c.CoverN(k, n)
					}
				}},
			{Name: "literals/unrepresentable", Count: core.FixedCount(cdcnmon.C11RejectCases(), cdcnmon.C11RejectCases()), Exhaustive: true, Run: cdcnmon.RunC11Reject, BlockIsViolation: true},
		},
	})
}
