package props

import (
	"fmt"

	"verif/harness/internal/core"
	"verif/harness/internal/seq"
)

func init() {
	core.Register(&core.Property{
		ID:    "C18",
		Title: "Go arrays and maps crossing the API are copied, never aliased",
		Rule: "A table of write/observe probes: for every entry point that accepts or returns a Go array, Go map or sequence (class- and module-level constructors of the seven kinds, AsArray, GetValues, GetKeys, RemoveValues) the argument is overwritten at every position after the call, " +
			"the result is modified through every mutating aspect it offers, and the collection is mutated by every mutator of its kind, each time re-observing the other side; every bulk operation is run with the receiver itself (and views of it) as operand and compared with the same operation on a separate copy. " +
			"Each probe runs at sizes 0..5 (quick) / 0..12 (thorough), all positions and all sub-ranges. A reflection pass over the methods of all class and instance objects makes the run inconclusive if a method with a slice/map/sequence in its signature is not in the table. distinct_nontrivial = distinct (probe, size).",
		Assumptions: []string{
			"association objects reachable from a Catalog's array view are shared by design and not counted",
			"the set operations And, Or, Sans, Xor are probed for independence by C15 (Concatenate, Merge, Extract, Fork and Split also here)",
		},
		Engines: []*core.Engine{
			{Name: "probes", Count: func(tier string) int { return seq.C18Cases(tier) }, Run: seq.RunC18, Exhaustive: true},
			{Name: "completeness", Count: core.FixedCount(1, 1), Exhaustive: true, Run: func(c *core.Ctx, idx int) {
				unknown, n := seq.C18Completeness()
				c.CoverN("api-methods-inspected", n)
				if len(unknown) > 0 {
					c.Inconclusive(fmt.Sprint("API methods carrying storage that the probe table does not know: ", unknown))
				}
				c.Distinct(core.HashStr("completeness"))
			}},
		},
		Repro: map[string]func() (bool, string){"c18.fork-sequence": seq.ReproForkSequence},
	})
}
