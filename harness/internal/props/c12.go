package props

import (
	"verif/harness/internal/cdcnmon"
	"verif/harness/internal/conc"
	"verif/harness/internal/core"
)

func init() {
	core.Register(&core.Property{
		ID:    "C12",
		Title: "ParseSource is total: any input ends in a value or a located syntax diagnostic",
		Rule: "Every input is parsed by the real ParseSource under an outcome classifier: value | panic whose payload is a text naming a token with line and position, the position lying inside the source and the source reading that token there | anything else (runtime.Error, other panics) = violation; after each call runtime.Stack(all) is searched for scanner goroutines (a goroutine parked in a channel send after the call ended is a leak). " +
			"Families: random bytes; valid tokens in random order; prefixes, single-character deletions/insertions/substitutions and rotations of valid documents (formatted by the repository or derived from the grammar); every item kind x every type context (incl. unknown and missing) with 1..40 items and up to 40 trailing tokens; an illegal character injected at a random position outside literals of multi-line documents (the diagnostic must be an error token at exactly that line and column). " +
			"Malformed documents with long tails are also parsed under the controlled scheduler (the scanner goroutine is adopted through the spawn/end hooks): depth-first over the schedules of scanner and parser with at most two preemptions (150 / 1000 per document); on every schedule the outcome is classified as above, is the same as on the first schedule, and nobody - in particular not the scanner - is left parked. " +
			"Plus Go's coverage-guided fuzzer (go test -fuzz, same classifier and leak monitor, seed corpus of valid documents) for 20 000 (quick) / 1 000 000 (thorough) executions. distinct_nontrivial = distinct inputs.",
		Assumptions: []string{
			"the diagnostic format 'Token [type: T, line: L, position: C]: \"text\"' is what identifies a located syntax diagnostic",
			"a hang is decided by the orchestrator's stall watchdog plus a goroutine dump (blocked in repository frames), never by a deadline alone",
		},
		Engines: []*core.Engine{
			{Name: "inputs/random-bytes", Count: core.FixedCount(20000, 600000), BlockIsViolation: true, Run: func(c *core.Ctx, idx int) { cdcnmon.RunC12Random(c, "bytes") }},
			{Name: "inputs/token-soup", Count: core.FixedCount(20000, 600000), BlockIsViolation: true, Run: func(c *core.Ctx, idx int) { cdcnmon.RunC12Random(c, "tokens") }},
			{Name: "inputs/mutated-documents", Count: core.FixedCount(30000, 800000), BlockIsViolation: true, Run: func(c *core.Ctx, idx int) { cdcnmon.RunC12Random(c, "mutated") }},
			{Name: "inputs/deep-nests", Count: core.FixedCount(4000, 80000), BlockIsViolation: true, Run: func(c *core.Ctx, idx int) { cdcnmon.RunC12Deep(c) }},
			{Name: "inputs/kind-context-mismatch", Count: core.FixedCount(cdcnmon.C12MismatchCases(), cdcnmon.C12MismatchCases()*8), BlockIsViolation: true, Run: cdcnmon.RunC12Mismatch},
			{Name: "inputs/reused-notation", Count: core.FixedCount(8000, 150000), BlockIsViolation: true, Run: func(c *core.Ctx, idx int) { cdcnmon.RunReusedNotation(c, "C12") }},
			{Name: "m1/scanner-parser-schedules", Pool: "m1", Count: core.FixedCount(300, 1500), CPULimit: 600,
				Run: func(c *core.Ctx, idx int) {
					if conc.M1Disabled(c) {
						return
					}
					cdcnmon.RunC11M1(c, true, ExploreParse)
					for k, n := range conc.AbandonedParses {
						c.CoverN(k, n)
					}
				}},
			{Name: "fuzz/coverage-guided", Count: core.FixedCount(1, 1), MaxWorkers: 1, CPULimit: 7200, Run: func(c *core.Ctx, idx int) { cdcnmon.RunC12Fuzz(c) }},
			{Name: "inputs/injected-character", Count: core.FixedCount(10000, 300000), BlockIsViolation: true, Run: func(c *core.Ctx, idx int) { cdcnmon.RunC12Injection(c) }},
		},
		Repro: map[string]func() (bool, string){
			"c12.deep-set":       cdcnmon.ReproDeepSet,
			"c12.nil-token":      cdcnmon.ReproNilToken,
			"c12.type-assertion": cdcnmon.ReproTypeAssertion,
			"c12.scanner-leak":   cdcnmon.ReproScannerLeak,
			"c12.queue-literal":  cdcnmon.ReproQueueLiteral,
		},
	})
}
