package props

import (
	"fmt"
	"math"

	"verif/harness/internal/core"
	"verif/harness/internal/seq"
)

func c14eng[K comparable](d seq.KeyDom[K], quick, thorough int) *core.Engine {
	return &core.Engine{
		Name:  "map/" + d.Name,
		Count: core.FixedCount(quick, thorough),
		Run:   func(c *core.Ctx, idx int) { seq.RunC14History(c, d) },
	}
}

func init() {
	core.Register(&core.Property{
		ID:    "C14",
		Title: "Map behaves exactly like a Go map and its views stay coherent",
		Rule: "PRNG-generated histories over the four constructors (duplicate keys: last wins), SetValue, GetValue(s), RemoveValue(s) (key sequences with duplicates, the map's own key view, a spy sequence), RemoveAll while holding a key snapshot and an iterator, against a Go map; " +
			"after every call: size, emptiness, array view / iteration / key view as multisets with each association exactly once, GetValue for every key of the pool. distinct_nontrivial = distinct hashes of (key type, model before, operation, argument class) after the first mutation.",
		Assumptions: []string{"the order of the unordered views is not constrained"},
		Engines: []*core.Engine{
			c14eng(seq.KeyDom[string]{Name: "string", Pool: []string{"", "a", "b", "ab", "c", "zz"}, Str: func(k string) string { return fmt.Sprintf("%q", k) }}, 50000, 800000),
			c14eng(seq.KeyDom[int]{Name: "int", Pool: []int{-1, 0, 1, 2, 3, 1 << 40}, Str: func(k int) string { return fmt.Sprint(k) }}, 50000, 800000),
			c14eng(seq.KeyDom[rune]{Name: "rune", Pool: []rune{'a', 'b', 0, 'é', 0x1F600}, Str: func(k rune) string { return fmt.Sprintf("%q", k) }}, 30000, 400000),
			// float keys incl. NaN (never equal to itself: each SetValue adds an entry that no lookup finds);
			// the reference model is a Go map, which has the same semantics
			c14eng(seq.KeyDom[float64]{Name: "float64", Pool: []float64{0, 1.5, -2, math.NaN(), math.Inf(1)}, Str: func(k float64) string { return fmt.Sprint(k) }}, 20000, 300000),
			c14eng(seq.KeyDom[any]{Name: "any", Pool: []any{1, "1", true, nil, 2.5, 'x', "a"}, Str: func(k any) string { return fmt.Sprintf("%#v", k) }}, 40000, 600000),
			{Name: "map/large", Count: core.FixedCount(250, 4000), CPULimit: 120, Run: func(c *core.Ctx, idx int) { seq.RunC03Large(c, false) }},
		},
		Repro: map[string]func() (bool, string){"c14.removeall-nan": seq.ReproMapRemoveAllNaN},
	})
}
