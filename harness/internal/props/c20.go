package props

import (
	"verif/harness/internal/core"
	"verif/harness/internal/seq"
)

// maxQueueC20 bounds the initial values given to Queue constructors in C20
// (more than the default capacity is C05's subject).
const maxQueueC20 = 20

func c20seq[V comparable](p *core.Property, et seq.ElemType[V], q, t int) {
	for _, kind := range []string{"Array", "List", "Set", "Stack", "Queue"} {
		kind := kind
		p.Engines = append(p.Engines, &core.Engine{Name: kind + "/" + et.Name, Count: core.FixedCount(q, t),
			Run: func(c *core.Ctx, idx int) { seq.RunC20Seq(c, et, kind, maxQueueC20) }, BlockIsViolation: true})
	}
}

func c20assoc[K comparable, V comparable](p *core.Property, kt seq.ElemType[K], vt seq.ElemType[V], q, t int) {
	for _, kind := range []string{"Catalog", "Map"} {
		kind := kind
		p.Engines = append(p.Engines, &core.Engine{Name: kind + "/" + kt.Name + "," + vt.Name, Count: core.FixedCount(q, t),
			Run: func(c *core.Ctx, idx int) { seq.RunC20Assoc(c, kt, vt, kind) }})
	}
	p.Engines = append(p.Engines, &core.Engine{Name: "Association/" + kt.Name + "," + vt.Name, Count: core.FixedCount(q/2, t/2),
		Run: func(c *core.Ctx, idx int) { seq.RunC20Association(c, kt, vt) }})
}

func init() {
	p := &core.Property{
		ID:    "C20",
		Title: "Universal constructors build what the class constructors and the parser build",
		Rule: "PRNG-generated cells of the matrix {Array, List, Set, Stack, Queue, Catalog, Map, Association} x {no argument, size/capacity (uint and int), Go array, Go map, sequence, collator, CDCN source (inline and multi-line, own and foreign sequence context)} x element/key types {int64, uint64, float64, string, rune, bool, any} x contents of size 0..20, " +
			"notation argument absent / first / last: kind (dynamic type), contents, order and capacity of the module-level result are compared with the class-level constructor on the same data, the source form additionally element-wise with ParseSource of the same text; Association(k,v) must have key k and value v for every pair of types incl. identical ones and any. " +
			"distinct_nontrivial = distinct (cell, contents, notation position).",
		Assumptions: []string{
			"forms the documentation does not list (a size for a List, no argument for an Array) may behave as they like",
			"an Array constructor given an empty Go array or empty source may reject it like a missing argument",
			"nil keys/values are not passed to Association (the constructor documents that it requires both)",
		},
		Repro: map[string]func() (bool, string){
			"c20.association-same-types": seq.ReproAssociationSameTypes,
			"c20.array-source":           seq.ReproArraySource,
			"c20.stack-source":           seq.ReproStackSource,
			"c20.nil-literal":            seq.ReproNilLiteral,
		},
	}
	c20seq(p, seq.ETInt64, 1500, 30000)
	c20seq(p, seq.ETUint, 800, 15000)
	c20seq(p, seq.ETFloat, 800, 15000)
	c20seq(p, seq.ETString, 1200, 20000)
	c20seq(p, seq.ETRune, 800, 15000)
	c20seq(p, seq.ETBool, 500, 8000)
	c20seq(p, seq.ETAny, 1200, 20000)
	c20seq(p, seq.ETAnyNil, 800, 12000)
	c20assoc(p, seq.ETString, seq.ETInt64, 1500, 25000)
	c20assoc(p, seq.ETString, seq.ETString, 1500, 25000)
	c20assoc(p, seq.ETInt64, seq.ETInt64, 1000, 15000)
	c20assoc(p, seq.ETInt64, seq.ETString, 1000, 15000)
	c20assoc(p, seq.ETRune, seq.ETBool, 800, 10000)
	c20assoc(p, seq.ETFloat, seq.ETFloat, 800, 10000)
	c20assoc(p, seq.ETUint, seq.ETAny, 800, 10000)
	c20assoc(p, seq.ETString, seq.ETAny, 1500, 25000)
	c20assoc(p, seq.ETAny, seq.ETAny, 1500, 25000)
	c20assoc(p, seq.ETBool, seq.ETBool, 500, 8000)
	p.Engines = append(p.Engines, &core.Engine{Name: "source/foreign-literal", Count: core.FixedCount(3000, 50000), Run: func(c *core.Ctx, idx int) { seq.RunC20ForeignLiteral(c) }})
	p.Engines = append(p.Engines, &core.Engine{Name: "Set/collator", Count: core.FixedCount(3000, 50000), Run: func(c *core.Ctx, idx int) { seq.RunC20SetCollator(c) }})
	core.Register(p)
}
