package props

import (
	"verif/harness/internal/core"
	"verif/harness/internal/seq"
)

func init() {
	core.Register(&core.Property{
		ID:    "C13",
		Title: "Stack is LIFO and never holds more values than its capacity",
		Rule: "PRNG-generated histories: a constructor (Make, MakeWithCapacity(0..4), MakeFromArray / MakeFromSequence with 0..2*default+1 unique values) followed by 1..60 AddValue / RemoveTop / RemoveAll calls that push past the capacity and pop past empty; model = Go slice (top first) + capacity; " +
			"after every call and every constructor: size, capacity, size<=capacity, emptiness, array view and iteration (top to bottom). distinct_nontrivial = distinct hashes of (model state before, capacity, operation, outcome) after the first mutation.",
		Assumptions: []string{
			"a constructor given more values than the default capacity may either panic or return a stack whose capacity is at least its size",
			"MakeWithCapacity(0) may panic or substitute a usable capacity",
		},
		Engines: []*core.Engine{{
			Name:  "stack/histories",
			Count: core.FixedCount(150000, 3000000),
			Run:   func(c *core.Ctx, idx int) { seq.RunC13History(c) },
		}},
		Repro: map[string]func() (bool, string){"c13.over-capacity": seq.ReproStackOverCapacity},
	})
}
