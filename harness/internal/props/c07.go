package props

import (
	"verif/harness/internal/core"
	"verif/harness/internal/rel"
)

func init() {
	core.Register(&core.Property{
		ID:    "C07",
		Title: "RankValues is a total preorder on every supported value type",
		Rule: "Law monitor over structured universes: per static type (bool, all integer widths, float32/64, complex64/128, rune, string, Go slices and maps, the seven collection kinds and associations with typed collators, and `any` over the canonical dynamic types closed under the container kinds to depth 3) " +
			"every pair is ranked in both orders three times (same collator, same collator after unrelated calls, fresh collator) and every triple is checked: reflexivity, mirror symmetry, transitivity of <=, agreement with the harness's independent natural order wherever the statement defines one, stability, no panic, depth counter back to 0; " +
			"plus PRNG-generated triples of nested values built from recipes (rebuilt copies, permuted map insertion orders). distinct_nontrivial = distinct values ranked (hash of printed value per universe) + distinct generated triples.",
		Assumptions: []string{
			"for NaN, complex numbers and different dynamic types under `any` only the preorder laws and nil-first are required (the statement defines no natural order there)",
			"structs, channels and functions are outside the stated universe; mixed static element types under Collator[any] (e.g. []any vs []int) are outside the canonical dynamic types",
		},
		Engines: []*core.Engine{
			{Name: "laws/corner-universes", Count: core.FixedCount(rel.NumUniverses(), rel.NumUniverses()), Exhaustive: true, CPULimit: 300,
				Run: func(c *core.Ctx, idx int) { rel.CheckUniverse(c, rel.UniverseByIndex(idx), "C07") }},
			{Name: "laws/generated-triples", Count: core.FixedCount(60000, 1200000), Run: func(c *core.Ctx, idx int) { rel.RunRandomTriples(c) }},
		},
		Repro: map[string]func() (bool, string){"c07.nan-rank": rel.ReproNaNRank, "c07.complex-rank": rel.ReproComplexRank,
			"c07.map-behind-interface": func() (bool, string) { return rel.ReproMapBehindInterface("rank") },
			"c07.fixed-array":          rel.ReproFixedArray},
	})
	core.Register(&core.Property{
		ID:    "C08",
		Title: "CompareValues is structural equality and agrees with ranking",
		Rule: "Same universes as C07: every pair compared in both orders three times and every triple: reflexive, symmetric, transitive, true exactly when RankValues is Equal and exactly when the harness's independent structural comparison says equal; " +
			"PRNG-generated recipes: an independently rebuilt copy compares equal, every single-point mutation (leaf changed, element added/removed/swapped, key renamed) compares unequal; cyclic battery: self-containing values end with the depth-limit panic and the collator keeps working afterwards. " +
			"distinct_nontrivial = distinct values compared + distinct recipes + distinct cyclic shapes.",
		Assumptions: []string{"same universe restrictions as C07"},
		Engines: []*core.Engine{
			{Name: "laws/corner-universes", Count: core.FixedCount(rel.NumUniverses(), rel.NumUniverses()), Exhaustive: true, CPULimit: 300,
				Run: func(c *core.Ctx, idx int) { rel.CheckUniverse(c, rel.UniverseByIndex(idx), "C08") }},
			{Name: "copies-and-mutations", Count: core.FixedCount(40000, 800000), Run: func(c *core.Ctx, idx int) { rel.RunCopiesAndMutations(c) }},
			{Name: "cyclic-battery", Count: core.FixedCount(rel.CyclicCases(), rel.CyclicCases()), Run: rel.RunCyclic},
			{Name: "deep-legal-nests", Count: core.FixedCount(rel.DeepCases(), rel.DeepCases()), Run: rel.RunDeep, Exhaustive: true},
		},
		Repro: map[string]func() (bool, string){"c08.nan-compare": rel.ReproNaNRank, "c08.depth-stuck": rel.ReproDepthStuck,
			"c08.map-behind-interface": func() (bool, string) { return rel.ReproMapBehindInterface("compare") },
			"c08.self-association":     rel.ReproSelfAssociation,
			"c08.deep-catalog":         rel.ReproDeepCatalog},
	})
}
