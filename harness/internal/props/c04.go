package props

import (
	"verif/harness/internal/conc"
	"verif/harness/internal/core"
)

func init() {
	core.Register(&core.Property{
		ID:    "C05",
		Title: "Queue never loses a wake-up: blocked calls resume whenever they can proceed",
		Rule: "M1 controlled scheduler: every goroutine of a generated well-formed producer/consumer/closer program (1-3 producers x 1-3 values, 1-3 consumers reading until ok=false, capacity 1-3, optional observers, optional RemoveAll caller) parks at the build-tag hooks before every lock, send, receive and close of queue.go and runs one at a time; " +
			"enabledness is computed from the real channel (a goroutine that reached a send/receive that cannot proceed is committed to that channel object, as it would be inside the runtime); strategies: random walk and PCT. Oracle: a state with unfinished goroutines and none enabled is a deadlock (lost wake-up), decided in logical time; terminal check: every operation returned, every value consumed or discarded. " +
			"M2: the same program family (plus observers incl. String()) on the real scheduler with hook-injected yields; a run that does not terminate is decided by the stable-dump rule. Constructors: MakeFromArray, MakeFromSequence, module Queue(values|sequence|source|capacity+values) and ParseSource of Queue literals with 0..64 initial values. distinct_nontrivial = distinct (program, executed schedule) pairs + distinct (constructor, N).",
		Assumptions: []string{
			"AddValue is never issued after CloseQueue may have completed and CloseQueue is issued once (valid use)",
			"'eventually' is decided as 'no stuck state in the explored schedules'; delays fall at hook points only",
		},
		Engines: []*core.Engine{
			{Name: "m1/well-formed-programs", Count: core.FixedCount(30000, 1000000), Run: func(c *core.Ctx, idx int) { conc.RunC05M1(c) }, CPULimit: 60, BlockIsViolation: true},
			{Name: "m1/exhaustive-tiny-programs", Count: core.FixedCount(len(conc.TinyPrograms), len(conc.TinyPrograms)), Run: func(c *core.Ctx, idx int) { conc.RunM1Exhaustive(c, idx, "C05") }, CPULimit: 1800},
			{Name: "m1/preemption-bounded-programs", Count: core.FixedCount(len(conc.MediumPrograms), len(conc.MediumPrograms)), Run: func(c *core.Ctx, idx int) { conc.RunM1Bounded(c, idx, "C05") }, CPULimit: 1800},
			{Name: "m2/real-scheduler-termination", Count: core.FixedCount(200, 4000), Run: conc.RunC05M2, CPULimit: 300, MaxWorkers: 4},
			{Name: "constructors/m1", Count: core.FixedCount(65*6, 65*6), Run: conc.RunC05Constructor, Exhaustive: true, CPULimit: 60},
			{Name: "constructors/busy-source", Pool: "free", Count: core.FixedCount(40, 400), Run: conc.RunC05BusySource, CPULimit: 60},
			{Name: "constructors/parsed-literal", Pool: "free", Count: core.FixedCount(65, 65), Run: func(c *core.Ctx, idx int) { conc.RunC05ParsedLiteral(c, idx) }, Exhaustive: true, CPULimit: 60},
		},
		Repro: map[string]func() (bool, string){"c05.removeall": conc.ReproRemoveAll, "c05.constructor": conc.ReproQueueConstructor, "c05.busy-source": conc.ReproBusySource},
	})
	core.Register(&core.Property{
		ID:    "C06",
		Title: "Fork, Split and Join conserve, order and terminate streams",
		Rule: "M1 controlled scheduler over {wiring client, feeder, the library's helper goroutines (adopted at their first hook after the spawn notification), one reader per output, a waiter on the caller's group}: stream lengths 0..4 x fan-out 2..3 x capacity 1..2 x {Fork, Split, Split then Join}; " +
			"oracle: per-output received sequence equals the deterministic expectation, ok=false exactly at the end of every output, nothing after closure, group counter back to 0, no deadlock, no panic. M3: the same shapes scaled up (lengths to thousands, fan-out to 8, lagging and bursty readers) under the race detector. distinct_nontrivial = distinct (program, executed schedule) pairs.",
		Assumptions: []string{"interleavings are explored at hook granularity", "races are only reported for accesses the stress actually made concurrent"},
		Engines: []*core.Engine{
			{Name: "m1/streams", Count: core.FixedCount(18000, 600000), Run: conc.RunC06M1, CPULimit: 60},
			{Name: "m1/exhaustive-tiny-streams", Count: core.FixedCount(9, 9), Run: conc.RunC06Exhaustive, CPULimit: 1800},
			{Name: "m3/race-streams", Count: core.FixedCount(90, 720), Run: conc.RunC06M3, Race: true, MaxWorkers: 4, CPULimit: 900},
		},
	})
	core.Register(&core.Property{
		ID:    "C04",
		Title: "Queue is a linearizable FIFO with bounded back-pressure under every schedule",
		Rule: "M1 controlled scheduler (see C05) over generated programs incl. observers and a RemoveAll caller: every client call is recorded (call stamp before, return stamp after, one logical clock; unique values) and the history is checked offline: FIFO linearizability with porcupine (model: sequence + closed flag; values discarded by RemoveAll become pseudo-operations inside the RemoveAll interval; final quiescent array view), " +
			"back-pressure as interval arithmetic (#Add returned - #RemoveHead called <= capacity before the RemoveAll call), GetSize/IsEmpty/AsArray against interval bounds, exact agreement at quiescence, no panic, no deadlock. M2: larger programs on the real scheduler with hook-injected yields and recorded stamps, same checkers. M3: many-goroutine stress in the race-detector build with no shared harness state. " +
			"distinct_nontrivial = distinct (program, executed schedule) pairs + distinct recorded M2 histories.",
		Assumptions: []string{
			"valid use: no AddValue after CloseQueue, one CloseQueue",
			"interleavings are sampled at hook granularity, not enumerated; races are only reported for accesses the stress actually made concurrent",
		},
		Engines: []*core.Engine{
			{Name: "m1/programs", Count: core.FixedCount(40000, 1200000), Run: func(c *core.Ctx, idx int) { conc.RunC04M1(c) }, CPULimit: 60},
			{Name: "m1/exhaustive-tiny-programs", Count: core.FixedCount(len(conc.TinyPrograms), len(conc.TinyPrograms)), Run: func(c *core.Ctx, idx int) { conc.RunM1Exhaustive(c, idx, "C04") }, CPULimit: 1800},
			{Name: "m1/preemption-bounded-programs", Count: core.FixedCount(len(conc.MediumPrograms), len(conc.MediumPrograms)), Run: func(c *core.Ctx, idx int) { conc.RunM1Bounded(c, idx, "C04") }, CPULimit: 1800},
			{Name: "m2/recorded-stress", Count: core.FixedCount(300, 6000), Run: conc.RunC04M2, CPULimit: 300, MaxWorkers: 4},
			{Name: "m3/race-stress", Count: core.FixedCount(60, 480), Run: conc.RunC04M3, Race: true, MaxWorkers: 4, CPULimit: 900},
		},
		Repro: map[string]func() (bool, string){"c04.removeall": conc.ReproRemoveAll},
	})
}
