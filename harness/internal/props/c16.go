package props

import (
	"verif/harness/internal/core"
	"verif/harness/internal/seq"
)

func init() {
	core.Register(&core.Property{
		ID:    "C16",
		Title: "Merge, Extract and Concatenate obey their documented laws and are pure",
		Rule: "Exhaustive: Concatenate on all 121x121 pairs of lists over a 3-value alphabet up to length 4; Merge on all 65x65 pairs of catalogs whose keys are ordered subsets of a 4-key universe (first-operand values 0.., second-operand values 10.. so the winner is observable; " +
			"the value 0 is stored under a present key); Extract on all 65 catalogs x all 156 key sequences of length 0..3 over {4 keys, 1 absent key} (repeats included), key sequence given as list or spy, plus the catalog's own key view; every (x,x) pair also passed aliased. " +
			"Random larger cases. Checked: the documented result on every view, result is a new collection, operands unchanged, no shared state (write through the result incl. its association objects -> operands unchanged, and vice versa). distinct_nontrivial = distinct (function, operands, aliased).",
		Assumptions: []string{"a key requested twice appears once, at its first position"},
		Engines: []*core.Engine{
			{Name: "concatenate/exhaustive", Count: core.FixedCount(seq.C16ConcatCases, seq.C16ConcatCases), Run: seq.RunC16Concat, Exhaustive: true},
			{Name: "merge/exhaustive", Count: core.FixedCount(seq.C16MergeCases, seq.C16MergeCases), Run: seq.RunC16Merge, Exhaustive: true},
			{Name: "extract/exhaustive", Count: core.FixedCount(seq.C16ExtractCases, seq.C16ExtractCases), Run: seq.RunC16Extract, Exhaustive: true},
			{Name: "random", Count: core.FixedCount(30000, 600000), Run: func(c *core.Ctx, idx int) { seq.RunC16Random(c) }},
		},
		Repro: map[string]func() (bool, string){"c16.extract-absent": seq.ReproExtractAbsent},
	})
}
