package props

import (
	"verif/harness/internal/core"
	"verif/harness/internal/seq"
)

func init() {
	p := &core.Property{
		ID:    "C17",
		Title: "Iterators are bidirectional cursors over an immutable snapshot",
		Rule: "Exhaustive: every sequence of moves {GetNext, GetPrevious, ToStart, ToEnd, ToSlot(k), k in -size-2..size+2} of length 4 (quick) / 7 (thorough) on iterators over 0..4 values, each replayed on a fresh iterator against a cursor model with GetSlot, HasNext, HasPrevious, GetSize, IsEmpty compared after every move " +
			"(one case = one (size, first move, second move) prefix with all continuations). Snapshot engine: for each of the seven kinds a random walk of an iterator interleaved with every mutating operation of its source collection and with moves of a second iterator; the first iterator must keep enumerating the values present when it was obtained. " +
			"distinct_nontrivial = distinct prefixes (exhaustive) + distinct interleaved histories (snapshot).",
		Assumptions: []string{"ToSlot(k) for k < -size may land on slot 0 or slot 1 (the statement says clamp without fixing the lower clamp)", "the enumeration order of a Map iterator is whatever the iterator shows when obtained"},
		Engines: []*core.Engine{
			{Name: "moves/exhaustive", Count: core.FixedCount(seq.C17ExhaustiveCases(), seq.C17ExhaustiveCases()), Run: seq.RunC17Exhaustive, Exhaustive: true, CPULimit: 900},
		},
	}
	for _, k := range seq.C17Kinds {
		k := k
		p.Engines = append(p.Engines, &core.Engine{Name: "snapshot/" + k, Count: core.FixedCount(8000, 150000), Run: func(c *core.Ctx, idx int) { seq.RunC17Snapshot(c, k) }})
	}
	p.Engines = append(p.Engines, &core.Engine{Name: "moves/long-lists", Count: core.FixedCount(2000, 40000), Run: func(c *core.Ctx, idx int) { seq.RunC17Large(c) }})
	core.Register(p)
}
