package props

import (
	"fmt"

	"verif/harness/internal/core"
	"verif/harness/internal/seq"
)

func c03eng[K comparable](d seq.KeyDom[K], quick, thorough int) *core.Engine {
	return &core.Engine{
		Name:  "catalog/" + d.Name,
		Count: core.FixedCount(quick, thorough),
		Run:   func(c *core.Ctx, idx int) { seq.RunC03History(c, d) },
	}
}

func init() {
	p := &core.Property{
		ID:    "C03",
		Title: "Catalog is an insertion-ordered map whose key index and order never diverge",
		Rule: "PRNG-generated histories over the four constructors, SetValue, GetValue(s), GetKeys, RemoveValue(s), RemoveAll, Sort*/Reverse/Shuffle against an ordered slice of (key,value) with the first-position/last-value rule; after every call all views " +
			"(size, array view, iteration, GetKeys, GetValue for every key of the pool - present and absent -, GetValues of all keys) are compared. Keys come from small pools so that updates, absent keys and repeats are the norm; values from {0,1,2} so that many associations are structurally equal; " +
			"pointer keys with equal pointees included. distinct_nontrivial = distinct hashes of (key type, model state before, operation, argument class) after the first mutation.",
		Assumptions: []string{
			"the order produced by MakeFromMap, SortValues (default ranker) and ShuffleValues may be any permutation; only the key->value mapping and the permutation property are required here (ascending order is C09's)",
			"NaN keys are excluded",
		},
		Repro: map[string]func() (bool, string){"c03.pointer-keys": seq.ReproCatalogPointerKeys},
	}
	ptrs := make([]*int, 6)
	for i := range ptrs {
		v := i / 2 // pairs of distinct pointers with equal pointees
		ptrs[i] = &v
	}
	p.Engines = []*core.Engine{
		c03eng(seq.KeyDom[string]{Name: "string", Pool: []string{"", "a", "b", "ab", "c", "zz"}, Str: func(k string) string { return fmt.Sprintf("%q", k) }, Less: func(a, b string) bool { return a < b }}, 40000, 600000),
		c03eng(seq.KeyDom[int]{Name: "int", Pool: []int{-1, 0, 1, 2, 3, 1 << 40}, Str: func(k int) string { return fmt.Sprint(k) }, Less: func(a, b int) bool { return a < b }}, 40000, 600000),
		c03eng(seq.KeyDom[rune]{Name: "rune", Pool: []rune{'a', 'b', 0, 'é', 0x1F600}, Str: func(k rune) string { return fmt.Sprintf("%q", k) }, Less: func(a, b rune) bool { return a < b }}, 20000, 300000),
		c03eng(seq.KeyDom[float64]{Name: "float64", Pool: []float64{0, 1, -1, 0.5, 1e300, -2.5}, Str: func(k float64) string { return fmt.Sprint(k) }, Less: func(a, b float64) bool { return a < b }}, 20000, 300000),
		c03eng(seq.KeyDom[any]{Name: "any", Pool: []any{1, "1", true, nil, 2.5, 'x', "a"}, Str: func(k any) string { return fmt.Sprintf("%#v", k) }}, 30000, 400000),
		c03eng(seq.KeyDom[*int]{Name: "*int", Pool: ptrs, Str: func(k *int) string {
			for i, q := range ptrs {
				if q == k {
					return fmt.Sprintf("p%d(->%d)", i, *k)
				}
			}
			return "p?"
		}, Less: func(a, b *int) bool { return *a < *b }}, 40000, 600000),
	}
	p.Engines = append(p.Engines, &core.Engine{Name: "catalog/large", Count: core.FixedCount(250, 4000), CPULimit: 120,
		Run: func(c *core.Ctx, idx int) { seq.RunC03Large(c, true) }})
	core.Register(p)
}
