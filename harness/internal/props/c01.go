// Package props registers one core.Property per claimed property.
package props

import (
	"verif/harness/internal/core"
	"verif/harness/internal/seq"
)

func eng[V any](kind string, d seq.Dom[V], quick, thorough int) *core.Engine {
	return &core.Engine{
		Name:  kind + "/" + d.Name,
		Count: core.FixedCount(quick, thorough),
		Run:   func(c *core.Ctx, idx int) { seq.RunC01History(c, d, kind) },
	}
}

func init() {
	p := &core.Property{
		ID:    "C01",
		Title: "List and Array behave as an ordinal-indexed sequence under every history",
		Rule: "PRNG-generated histories (constructor + 1..40 operations with hostile indices, slots, ranges and operand kinds: list, array, empty, spy, receiver itself, view of the receiver) run in lock-step against a Go-slice model; " +
			"after every call every read path (size, emptiness, array view, forward/backward iteration, GetValue at every +/- index) is compared. " +
			"Long sequences: a List grown to a length around a power of two (64..4096, or any length up to 5000) by appends interleaved with inserts, removals, updates and range operations, compared with the model at checkpoints, at the power of two itself and at the end. " +
			"distinct_nontrivial = distinct hashes of (element type, kind, model state before the call, operation, argument class, outcome class) taken only after the history contains a successful mutation.",
		Assumptions: []string{
			"NaN elements are excluded (C07/C08)",
			"an inverted range with both ends inside the sequence, and an empty operand at a valid position, may either return the empty effect or panic (state unchanged either way)",
			"ShuffleValues only has to yield a permutation (crypto/rand)",
			"the harness's own Sequential implementation (spy operand) is a legal operand",
		},
	}
	for _, kind := range []string{"list", "array"} {
		p.Engines = append(p.Engines,
			eng(kind, seq.IntDom(4), 40000, 800000),
			eng(kind, seq.IntDom(1<<30), 20000, 400000),
			eng(kind, seq.StringDom(5), 30000, 600000),
			eng(kind, seq.StringDom(100), 15000, 300000),
			eng(kind, seq.FloatDom(12), 30000, 600000),
			eng(kind, seq.SliceDom(2), 30000, 600000),
			eng(kind, seq.AnyDom(0, 4), 15000, 300000),
			eng(kind, seq.AnyDom(1, 5), 15000, 300000),
			eng(kind, seq.AnyDom(2, 3), 15000, 300000),
			eng(kind, seq.AnyDom(3, 3), 10000, 200000),
		)
	}
	p.Engines = append(p.Engines, &core.Engine{Name: "list/long-sequences", Count: core.FixedCount(400, 6000), CPULimit: 120,
		Run: func(c *core.Ctx, idx int) { seq.RunC01Large(c) }})
	p.Repro = map[string]func() (bool, string){
		"c01.insert-slot":    seq.ReproInsertSlot,
		"c01.insert-empty":   seq.ReproInsertEmpty,
		"c01.setvalues-wrap": seq.ReproSetValuesWrap,
	}
	core.Register(p)
}
