package props

import (
	"verif/harness/internal/conc"
	"verif/harness/internal/core"
)

func init() {
	np := len(conc.C19Pairs())
	core.Register(&core.Property{
		ID:    "C19",
		Title: "Distinct instances are independent across goroutines",
		Rule: "Race-detector build, no harness hook and no shared harness state while the workload runs: for every unordered pair of the ten operation families (build, mutate, search, sort with the default ranker incl. the default sorter of a composite type, compare/rank, format incl. String() through the class notation, parse, class functions (set algebra, Merge, Extract, Concatenate), a private Split/Join queue pipeline, iterate) 2..16 goroutines each run a deterministic script on instances they create themselves, three times; " +
			"the sequential transcript of every script is computed first and every concurrent transcript must equal it; every pair is additionally run cold in a fresh child process (first use of all lazily initialised shared state happens concurrently, references computed afterwards); race reports with a repository frame are violations. Class accessors: 320 accessors (8 classes x 40 type parameters unused elsewhere) are called from 16 goroutines at once, half of them holding a notation instance of their own, and once more afterwards with a fresh notation instance; all callers must receive the same class. " +
			"distinct_nontrivial = distinct (family pair, goroutine count, repetition).",
		Assumptions: []string{
			"races are only reported for accesses the runs actually made concurrent; each pair is repeated with varying goroutine counts and GOMAXPROCS",
			"instances that are derived from one another (a set and the result of And on it share a collator) are not 'different instances'",
		},
		Repro: map[string]func() (bool, string){"race:c19.string": conc.ReproStringRace, "race:c19.sorter": conc.ReproSorterRace, "race:c19.shared-collator": conc.ReproSharedCollator},
		Engines: []*core.Engine{
			{Name: "race/family-pairs", Count: core.FixedCount(np*3, np*40), Run: conc.RunC19Pair, Race: true, MaxWorkers: 4, CPULimit: 900},
			{Name: "race/cold-start-pairs", Count: core.FixedCount(np, np*6), Run: conc.RunC19Cold, Race: true, MaxWorkers: 8, CPULimit: 600},
			{Name: "race/derived-instances", Count: core.FixedCount(24, 240), Run: conc.RunC19Derived, Race: true, MaxWorkers: 4, CPULimit: 600},
			{Name: "race/class-accessors", Count: core.FixedCount(8, 64), Run: conc.RunC19Classes, Race: true, MaxWorkers: 4, CPULimit: 600},
		},
	})
}
