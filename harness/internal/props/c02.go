package props

import (
	"fmt"
	"sync"

	age "github.com/craterdog/go-collection-framework/v4/agent"
	col "github.com/craterdog/go-collection-framework/v4/collection"

	"verif/harness/internal/core"
	"verif/harness/internal/seq"
)

func sgn(b1, b2 bool) int {
	switch {
	case b1:
		return -1
	case b2:
		return 1
	}
	return 0
}

func c02eng[V any](d seq.SetDom[V], collator string, defRank func(a, b V) int, quick, thorough int) *core.Engine {
	return &core.Engine{
		Name:  "set/" + d.Name + "/" + collator,
		Count: core.FixedCount(quick, thorough),
		Run:   func(c *core.Ctx, idx int) { seq.RunC02History(c, d, collator, defRank) },
	}
}

func init() {
	p := &core.Property{
		ID:    "C02",
		Title: "Set stays strictly ordered, duplicate-free and equal to the mathematical set",
		Rule: "PRNG-generated histories over Make/MakeWithCollator/MakeFromArray/MakeFromSequence, AddValue(s), RemoveValue(s), RemoveAll, Contains*, GetIndex, GetValue(s) against a model kept sorted and de-duplicated by the collator the harness supplied " +
			"(default order = natural order of the element type; reversed and coarse collators are implemented by the harness); after every call: strict ascent, membership, GetIndex/ContainsValue for every value of the (small) universe, GetValue at every index, iteration. " +
			"Plus an exhaustive engine: every insertion order of 0..6 (thorough: 0..7) distinct values, absent values probed before/between/after the members after every step, removal in three orders. " +
			"distinct_nontrivial = distinct hashes of (element type, collator, model state before, operation, argument class, outcome) after the first mutation.",
		Assumptions: []string{
			"only total-preorder collators are supplied",
			"which of several collator-equal values is retained is not constrained beyond being one of those added",
			"for Set[any] with mixed dynamic types the expected order is taken from the set's own (repository) collator; its laws are checked independently by C07",
		},
	}
	// int, small universe
	intU := seq.SetDom[int]{Dom: seq.IntDom(8), Universe: []int{-2, -1, 0, 1, 2, 3, 4, 5}, Coarse: func(a, b int) int { return (a+9)/3 - (b+9)/3 }}
	intL := seq.SetDom[int]{Dom: seq.IntDom(1 << 30), Coarse: func(a, b int) int { return sgn(a>>20 < b>>20, a>>20 > b>>20) }}
	strU := seq.SetDom[string]{Dom: seq.StringDom(9), Universe: []string{"", "a", "b", "ab", "ba", "abc", "é", "z", "A"},
		Coarse: func(a, b string) int {
			fa, fb := byte(0), byte(0)
			if a != "" {
				fa = a[0]
			}
			if b != "" {
				fb = b[0]
			}
			return int(fa) - int(fb)
		}}
	strL := seq.SetDom[string]{Dom: seq.StringDom(1000), Coarse: func(a, b string) int { return len(a) - len(b) }}
	slU := seq.SetDom[[]int]{Dom: seq.SliceDom(2), Universe: [][]int{{}, {0}, {1}, {0, 0}, {0, 1}, {1, 0}, {1, 1}},
		Coarse: func(a, b []int) int { return len(a) - len(b) }}
	anyI := seq.SetDom[any]{Dom: seq.AnyDom(0, 6), Universe: []any{0, 1, 2, 3, 4, 5}}
	anyS := seq.SetDom[any]{Dom: seq.AnyDom(1, 6), Universe: []any{"", "a", "b", "ab", "ba", "abc"}}
	anyM := seq.SetDom[any]{Dom: seq.AnyDom(2, 3), Universe: []any{nil, false, true, 0, 1, 2, "", "a", "b"}}
	repoRank := func(a, b any) int {
		switch age.Collator[any]().Make().RankValues(a, b) {
		case age.LesserRank:
			return -1
		case age.GreaterRank:
			return 1
		}
		return 0
	}
	// nested sets: built lazily inside the worker (no repository code may run
	// while the binary initialises - the orchestrator must survive any tree)
	var nstOnce sync.Once
	var nstDom seq.SetDom[col.SetLike[int]]
	nested := func() seq.SetDom[col.SetLike[int]] {
		nstOnce.Do(func() {
			mk := func(vs ...int) col.SetLike[int] { return col.Set[int](seq.Notation).MakeFromArray(vs) }
			pool := []col.SetLike[int]{mk(), mk(0), mk(1), mk(0, 1), mk(2), mk(0, 2), mk(0, 1, 2)}
			nd := seq.Dom[col.SetLike[int]]{
				Name: "SetLike[int]",
				Gen:  func(r *core.Rng) col.SetLike[int] { return pool[r.Intn(len(pool))] },
				Eq:   func(a, b col.SetLike[int]) bool { return fmt.Sprint(a.AsArray()) == fmt.Sprint(b.AsArray()) },
				Same: func(a, b col.SetLike[int]) bool { return a == b },
				Less: func(a, b col.SetLike[int]) bool {
					x, y := a.AsArray(), b.AsArray()
					for i := 0; i < len(x) && i < len(y); i++ {
						if x[i] != y[i] {
							return x[i] < y[i]
						}
					}
					return len(x) < len(y)
				},
				Str: func(v col.SetLike[int]) string { return fmt.Sprint(v.AsArray()) },
			}
			// two extra instances with equal content but different identity
			univ := append([]col.SetLike[int]{}, pool...)
			univ = append(univ, mk(0, 1), mk(2))
			nstDom = seq.SetDom[col.SetLike[int]]{Dom: nd, Universe: univ}
		})
		return nstDom
	}
	nestedEng := func(collator string, quick, thorough int) *core.Engine {
		return &core.Engine{Name: "set/SetLike[int]/" + collator, Count: core.FixedCount(quick, thorough),
			Run: func(c *core.Ctx, idx int) { seq.RunC02History(c, nested(), collator, nil) }}
	}

	p.Engines = []*core.Engine{
		c02eng(intU, "default", nil, 30000, 600000),
		c02eng(intU, "natural", nil, 10000, 200000),
		c02eng(intU, "reversed", nil, 15000, 300000),
		c02eng(intU, "coarse", nil, 15000, 300000),
		c02eng(intL, "default", nil, 10000, 200000),
		c02eng(intL, "reversed", nil, 5000, 100000),
		c02eng(intL, "coarse", nil, 5000, 100000),
		c02eng(strU, "default", nil, 15000, 300000),
		c02eng(strU, "reversed", nil, 8000, 150000),
		c02eng(strU, "coarse", nil, 8000, 150000),
		c02eng(strL, "default", nil, 5000, 100000),
		c02eng(strL, "coarse", nil, 5000, 100000),
		c02eng(slU, "default", nil, 10000, 200000),
		c02eng(slU, "reversed", nil, 5000, 100000),
		c02eng(slU, "coarse", nil, 5000, 100000),
		c02eng(anyI, "default", nil, 8000, 150000),
		c02eng(anyS, "default", nil, 8000, 150000),
		c02eng(anyM, "default", repoRank, 8000, 150000),
		nestedEng("default", 8000, 150000),
		nestedEng("reversed", 4000, 80000),
	}
	for _, collator := range []string{"default", "reversed"} {
		collator := collator
		p.Engines = append(p.Engines, &core.Engine{
			Name:       "set/orders/" + collator,
			Count:      core.FixedCount(874, 5914), // 0!+1!+...+6! (thorough: ...+7!)
			Run:        func(c *core.Ctx, idx int) { seq.RunC02Orders(c, idx, collator) },
			Exhaustive: true,
		})
	}
	p.Engines = append(p.Engines, &core.Engine{Name: "set/large-sets", Count: core.FixedCount(300, 5000), CPULimit: 120,
		Run: func(c *core.Ctx, idx int) { seq.RunC02Large(c) }})
	core.Register(p)
}
