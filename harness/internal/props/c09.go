package props

import (
	"verif/harness/internal/core"
	"verif/harness/internal/seq"
)

func init() {
	core.Register(&core.Property{
		ID:    "C09",
		Title: "Sorting yields an ordered permutation for every ranker",
		Rule: "Exhaustive: all 349525 arrays of length 0..9 (thorough: all 1398101 of length 0..10) over a 4-value alphabet, elements tagged with unique ids, sorted through agent.Sorter with the rankers natural, reversed, coarse (quick: plus every 16th array with constant, always-Lesser, always-Greater and seeded-random; thorough: all seven on every array); " +
			"oracle: multiset of ids unchanged, values unaltered, no adjacent pair ranks Greater when the ranker is a total preorder, ranker calls <= 10*n*ceil(log2 n)+100 (termination). Every 8th array is also sorted through Array, List and Catalog (must equal the sorter's arrangement); every 4th through Reverse (mirror, twice = identity) and Shuffle (permutation). " +
			"Random arrays up to length 5000 (power-of-two neighbourhoods, heavy duplication, presorted, reversed, saw-tooth) and the default rankers. Reused instance: one sorter serves 2..6 arrays in turn (sort / reverse / shuffle, lengths 0..100 around the merge-pass boundaries, sometimes an array it has handled before); each call must have its effect on its own array and every array handled earlier must stay exactly as its call left it. distinct_nontrivial = distinct blocks of 128 arrays + distinct random (ranker, n, shape, domain) + distinct default-ranker inputs.",
		Assumptions: []string{"stability is not required", "ShuffleValues only has to yield a permutation"},
		Engines: []*core.Engine{
			{Name: "sorter/exhaustive", Count: func(tier string) int { return seq.C09Blocks(tier) }, Run: seq.RunC09Exhaustive, Exhaustive: true, CPULimit: 120},
			{Name: "sorter/random", Count: core.FixedCount(20000, 200000), Run: func(c *core.Ctx, idx int) { seq.RunC09Random(c) }, CPULimit: 60},
			{Name: "sorter/reused-instance", Count: core.FixedCount(15000, 150000), Run: func(c *core.Ctx, idx int) { seq.RunC09Reused(c) }},
			{Name: "collections/sort-sequences", Count: core.FixedCount(8000, 120000), Run: func(c *core.Ctx, idx int) { seq.RunC09Sequences(c) }},
			{Name: "sorter/default-ranker", Count: core.FixedCount(20000, 200000), Run: func(c *core.Ctx, idx int) { seq.RunC09Default(c) }},
		},
	})
}
