package conc

import (
	"fmt"
	"strings"

	mod "github.com/craterdog/go-collection-framework/v4"
	cdc "github.com/craterdog/go-collection-framework/v4/cdcn"
	col "github.com/craterdog/go-collection-framework/v4/collection"

	"verif/harness/internal/core"
)

var notation = cdc.Notation().Make()

// QProgram is a small client program for one queue (generated data).
type QProgram struct {
	Cap       int
	Producers []int // values per producer
	Consumers []int // RemoveHead calls per consumer; -1 = until ok=false (needs the closer)
	Closer    bool
	Observers int
	RemoveAll bool
	// StarvationOK: a RemoveAll caller without a closer: consumers with fixed
	// takes may legitimately wait for ever for values that were discarded, but
	// the RemoveAll call itself must always return.
	StarvationOK bool
	// Form / Initial: the queue is built by a constructor from Initial values
	// ("array", "sequence", "module-array", "module-sequence"); its capacity is
	// then whatever GetCapacity() reports ("" = MakeWithCapacity(Cap)).
	Form    string
	Initial int
}

func (p QProgram) String() string {
	s := fmt.Sprintf("cap=%d producers=%v consumers=%v closer=%v observers=%d removeAll=%v", p.Cap, p.Producers, p.Consumers, p.Closer, p.Observers, p.RemoveAll)
	if p.StarvationOK {
		s += " (no closer: consumers may starve)"
	}
	if p.Form != "" {
		s += fmt.Sprintf(" queue built by %s from %d values (cap is ignored)", p.Form, p.Initial)
	}
	return s
}

// GenQProgram draws a well-formed program.
func GenQProgram(r *core.Rng, allowRemoveAll bool) QProgram {
	p := QProgram{Cap: r.Range(1, 3)}
	np := r.Range(1, 3)
	total := 0
	for i := 0; i < np; i++ {
		n := r.Range(1, 3)
		p.Producers = append(p.Producers, n)
		total += n
	}
	if r.Chance(1, 5) {
		p.Form = []string{"array", "sequence", "module-array", "module-sequence", "zero-capacity"}[r.Intn(5)]
		p.Initial = []int{0, 1, 2, 3, 5, 15, 16, 17, 20, 33, 40}[r.Intn(11)]
		if p.Form == "zero-capacity" {
			p.Initial = 0 // MakeWithCapacity(0): the default capacity
		}
		total += p.Initial
	}
	nc := r.Range(1, 3)
	p.RemoveAll = allowRemoveAll && r.Chance(1, 3)
	p.Closer = p.RemoveAll || r.Chance(2, 3)
	if p.RemoveAll && r.Chance(1, 3) {
		p.Closer = false
		p.StarvationOK = true
	}
	if p.Closer {
		for i := 0; i < nc; i++ {
			p.Consumers = append(p.Consumers, -1)
		}
	} else {
		// fixed takes that sum up to at most the number of values (so nobody waits for ever by design)
		// (together they take every value, otherwise a producer could legitimately
		// stay blocked on the full queue for ever)
		left := total
		for i := 0; i < nc; i++ {
			n := r.Range(0, left)
			if i == nc-1 {
				n = left
			}
			p.Consumers = append(p.Consumers, n)
			left -= n
		}
	}
	p.Observers = r.Intn(3)
	return p
}

// QResult is what one schedule of a program produced.
type QResult struct {
	Hist      *History
	Sched     *Sched
	Final     []string
	FinalSize int
	FinalEmp  bool
	Panic     string
	Program   QProgram
	// Cap is the capacity the checkers use: the program's, or GetCapacity() of a constructed queue
	Cap     int
	CtorBad string
}

// Check runs the offline checkers of C04 on the result.
func (res *QResult) Check() []Finding {
	if res.CtorBad != "" {
		return []Finding{{"constructed/size-exceeds-capacity", res.CtorBad}}
	}
	return CheckQueueHistory(res.Hist, res.Cap, res.Final, res.FinalSize, res.FinalEmp)
}

// RunQProgram executes the program under the controlled scheduler.
func RunQProgram(rng *core.Rng, p QProgram) *QResult { return RunQProgramForced(rng, p, nil, false) }

// RunQProgramForced: systematic=true replays the forced decision prefix and
// then always takes the first enabled goroutine (depth-first exploration).
func RunQProgramForced(rng *core.Rng, p QProgram, forced []int, systematic bool) *QResult {
	return RunQProgramBounded(rng, p, forced, systematic, 0)
}

// RunQProgramBounded: systematic exploration with at most maxPreempt preemptions (0 = unbounded).
func RunQProgramBounded(rng *core.Rng, p QProgram, forced []int, systematic bool, maxPreempt int) *QResult {
	s := NewSched(rng)
	s.Forced, s.Systematic, s.MaxPreempt = forced, systematic, maxPreempt
	defer s.Deactivate()
	h := NewHistory(s.Tick)
	var q col.QueueLike[string]
	res := &QResult{Hist: h, Sched: s, Program: p, Cap: p.Cap}
	if p.Form == "" {
		q = col.Queue[string](notation).MakeWithCapacity(uint(p.Cap))
	} else {
		// built by the set-up goroutine, which the scheduler lets pass its hooks freely
		vals := make([]string, p.Initial)
		for i := range vals {
			vals[i] = fmt.Sprintf("init.%d", i)
		}
		switch p.Form {
		case "array":
			q = col.Queue[string](notation).MakeFromArray(vals)
		case "sequence":
			q = col.Queue[string](notation).MakeFromSequence(col.List[string](notation).MakeFromArray(vals))
		case "module-array":
			q = mod.Queue[string](vals)
		case "zero-capacity":
			q = col.Queue[string](notation).MakeWithCapacity(0)
		default:
			q = mod.Queue[string](col.List[string](notation).MakeFromArray(vals))
		}
		for _, v := range vals {
			h.RetOp(h.CallOp("init", "add", v))
		}
		res.Cap = int(q.GetCapacity())
		if n := q.GetSize(); n > res.Cap || n != p.Initial || res.Cap < 1 {
			res.CtorBad = fmt.Sprintf("a queue built by the %s constructor from %d values reports GetSize()=%d and GetCapacity()=%d", p.Form, p.Initial, n, res.Cap)
		}
	}
	clients := 0
	var panicMsg string
	start := func(role string, body func()) {
		clients++
		go func() {
			s.Begin(role)
			defer s.End()
			defer func() {
				if e := recover(); e != nil {
					msg := fmt.Sprintf("%s: %v", role, e)
					s.mu.Lock()
					if panicMsg == "" {
						panicMsg = msg
					}
					s.mu.Unlock()
					s.Abort(msg)
				}
			}()
			body()
		}()
	}
	var producerRoles []string
	for i, n := range p.Producers {
		i, n := i, n
		role := fmt.Sprintf("p%d", i)
		producerRoles = append(producerRoles, role)
		start(role, func() {
			for k := 0; k < n; k++ {
				v := fmt.Sprintf("%s.%d", role, k)
				o := h.CallOp(role, "add", v)
				q.AddValue(v)
				h.RetOp(o)
			}
		})
	}
	for i, n := range p.Consumers {
		i, n := i, n
		role := fmt.Sprintf("c%d", i)
		start(role, func() {
			for k := 0; n < 0 || k < n; k++ {
				o := h.CallOp(role, "rem", "")
				v, ok := q.RemoveHead()
				o.Val, o.Ok = v, ok
				h.RetOp(o)
				if !ok {
					if n >= 0 {
						panic("harness: RemoveHead reported ok=false in a program that never closes the queue")
					}
					return
				}
			}
		})
	}
	if p.Closer {
		start("closer", func() {
			s.JoinRoles(producerRoles...)
			o := h.CallOp("closer", "close", "")
			q.CloseQueue()
			h.RetOp(o)
		})
	}
	for i := 0; i < p.Observers; i++ {
		role := fmt.Sprintf("o%d", i)
		obsRng := rng.Fork()
		start(role, func() {
			for k := 0; k < 3; k++ {
				switch obsRng.Intn(5) {
				case 0:
					o := h.CallOp(role, "size", "")
					o.N = q.GetSize()
					h.RetOp(o)
				case 1:
					o := h.CallOp(role, "empty", "")
					o.Empty = q.IsEmpty()
					h.RetOp(o)
				case 4:
					// the iterator is a snapshot of the same list the array view shows
					o := h.CallOp(role, "array", "")
					it := q.GetIterator()
					o.Arr = []string{}
					for it.HasNext() {
						o.Arr = append(o.Arr, it.GetNext())
					}
					h.RetOp(o)
				case 3:
					// String() formats the queue through its own Sequential methods
					o := h.CallOp(role, "string", "")
					_ = fmt.Sprint(q)
					h.RetOp(o)
				default:
					o := h.CallOp(role, "array", "")
					o.Arr = q.AsArray()
					h.RetOp(o)
				}
			}
		})
	}
	if p.RemoveAll {
		start("reset", func() {
			o := h.CallOp("reset", "removeall", "")
			q.RemoveAll()
			h.RetOp(o)
		})
	}
	s.Run(clients)
	s.mu.Lock()
	res.Panic = panicMsg
	s.mu.Unlock()
	if s.Deadlock() == "" && s.Aborted() == "" && !s.Stuck() && !s.Unrepresentable() {
		// quiescent: everybody has ended, the scheduler is out of the way
		s.Deactivate()
		res.Final = q.AsArray()
		res.FinalSize = q.GetSize()
		res.FinalEmp = q.IsEmpty()
	}
	return res
}

// ---- streams: Fork, Split, Split∘Join ----

type SProgram struct {
	Shape  string // fork, split, splitjoin
	Length int
	Fan    int
	Cap    int
}

func (p SProgram) String() string {
	return fmt.Sprintf("%s length=%d fan-out=%d capacity=%d", p.Shape, p.Length, p.Fan, p.Cap)
}

type SResult struct {
	Sched    *Sched
	Outputs  [][]string // values received per output, in order
	AfterEnd [][]string // anything received after ok=false (must be empty)
	Closed   []bool     // whether the output reported ok=false
	Counter  int
	Panic    string
	Program  SProgram
	Input    []string
}

// RunSProgram executes feeder + library helpers + one reader per output.
func RunSProgram(rng *core.Rng, p SProgram) *SResult { return RunSProgramForced(rng, p, nil, false) }

func RunSProgramForced(rng *core.Rng, p SProgram, forced []int, systematic bool) *SResult {
	s := NewSched(rng)
	s.Forced, s.Systematic = forced, systematic
	defer s.Deactivate()
	res := &SResult{Sched: s, Program: p}
	Q := col.Queue[string](notation)
	input := Q.MakeWithCapacity(uint(p.Cap))
	group := s.NewGroup()
	for i := 0; i < p.Length; i++ {
		res.Input = append(res.Input, fmt.Sprintf("v%d", i))
	}
	clients := 0
	var panicMsg string
	start := func(role string, body func()) {
		clients++
		go func() {
			s.Begin(role)
			defer s.End()
			defer func() {
				if e := recover(); e != nil {
					s.mu.Lock()
					if panicMsg == "" {
						panicMsg = fmt.Sprintf("%s: %v", role, e)
					}
					s.mu.Unlock()
					s.Abort(panicMsg)
				}
			}()
			body()
		}()
	}
	// The wiring (Fork/Split/Join calls) is done by a client goroutine so that
	// the Spawn notifications are scheduler-visible.
	nOut := p.Fan
	if p.Shape == "splitjoin" {
		nOut = 1
	}
	res.Outputs = make([][]string, nOut)
	res.AfterEnd = make([][]string, nOut)
	res.Closed = make([]bool, nOut)
	outs := make([]col.QueueLike[string], nOut)
	start("wire", func() {
		switch p.Shape {
		case "fork":
			for i, o := range Q.Fork(group, input, uint(p.Fan)).AsArray() {
				outs[i] = o
			}
		case "split":
			for i, o := range Q.Split(group, input, uint(p.Fan)).AsArray() {
				outs[i] = o
			}
		default:
			outs[0] = Q.Join(group, Q.Split(group, input, uint(p.Fan)))
		}
	})
	start("feeder", func() {
		for _, v := range res.Input {
			input.AddValue(v)
		}
		input.CloseQueue()
	})
	var readerRoles []string
	for i := 0; i < nOut; i++ {
		i := i
		role := fmt.Sprintf("r%d", i)
		readerRoles = append(readerRoles, role)
		start(role, func() {
			s.JoinRoles("wire")
			for {
				v, ok := outs[i].RemoveHead()
				if !ok {
					res.Closed[i] = true
					break
				}
				res.Outputs[i] = append(res.Outputs[i], v)
			}
			// nothing may arrive after closure: the queue must stay closed and empty
			if outs[i].GetSize() != 0 {
				res.AfterEnd[i] = append(res.AfterEnd[i], outs[i].AsArray()...)
			}
		})
	}
	start("waiter", func() {
		s.JoinRoles("wire")
		group.Wait()
	})
	s.Run(clients)
	s.mu.Lock()
	res.Panic = panicMsg
	s.mu.Unlock()
	res.Counter = group.Count()
	return res
}

// CheckStream compares what the outputs received with the deterministic expectation.
func CheckStream(r *SResult) []Finding {
	var out []Finding
	add := func(sig, format string, a ...any) { out = append(out, Finding{sig, fmt.Sprintf(format, a...)}) }
	p := r.Program
	for i, got := range r.Outputs {
		var want []string
		switch p.Shape {
		case "fork", "splitjoin":
			want = r.Input
		case "split":
			for k := i; k < len(r.Input); k += p.Fan {
				want = append(want, r.Input[k])
			}
		}
		if strings.Join(got, ",") != strings.Join(want, ",") {
			add("stream/"+p.Shape+"/wrong-values", "output %d received %v, expected %v", i, got, want)
		}
		if !r.Closed[i] {
			add("stream/"+p.Shape+"/output-not-closed", "output %d never reported ok=false", i)
		}
		if len(r.AfterEnd[i]) > 0 {
			add("stream/"+p.Shape+"/delivery-after-closure", "output %d holds %v after it reported closure", i, r.AfterEnd[i])
		}
	}
	if r.Sched.WaitEarly != "" {
		add("stream/"+p.Shape+"/wait-returned-early", "%s", r.Sched.WaitEarly)
	}
	if r.Counter != 0 {
		add("stream/"+p.Shape+"/group-counter", "the caller's wait group counter is %d after everything ended", r.Counter)
	}
	return out
}
