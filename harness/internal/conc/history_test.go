package conc

import (
	"strings"
	"testing"
)

// Self-tests of the offline checkers on handcrafted histories: the oracles
// must fire on histories that contradict C04 and stay silent on good ones.

type hb struct {
	h *History
	t int64
}

func newHB() *hb {
	b := &hb{}
	b.h = NewHistory(func() int64 { b.t++; return b.t })
	return b
}

func (b *hb) add(c, v string) *Op { o := b.h.CallOp(c, "add", v); b.h.RetOp(o); return o }
func (b *hb) rem(c, v string, ok bool) *Op {
	o := b.h.CallOp(c, "rem", "")
	o.Val, o.Ok = v, ok
	b.h.RetOp(o)
	return o
}
func (b *hb) close(c string) { o := b.h.CallOp(c, "close", ""); b.h.RetOp(o) }

func sigs(fs []Finding) string {
	var s []string
	for _, f := range fs {
		s = append(s, f.Sig)
	}
	return strings.Join(s, " ")
}

func TestGoodHistory(t *testing.T) {
	b := newHB()
	b.add("p", "a")
	b.add("p", "b")
	b.rem("c", "a", true)
	b.rem("c", "b", true)
	b.close("k")
	b.rem("c", "", false)
	if fs := CheckQueueHistory(b.h, 2, nil, 0, true); len(fs) != 0 {
		t.Fatalf("good history flagged: %s", sigs(fs))
	}
}

func TestOverlappingAddsMayReorder(t *testing.T) {
	b := newHB()
	a1 := b.h.CallOp("p1", "add", "a")
	a2 := b.h.CallOp("p2", "add", "b")
	b.h.RetOp(a2)
	b.h.RetOp(a1)
	b.rem("c", "b", true)
	b.rem("c", "a", true)
	if fs := CheckQueueHistory(b.h, 2, nil, 0, true); len(fs) != 0 {
		t.Fatalf("overlapping additions may come out in either order: %s", sigs(fs))
	}
}

func TestReorderedDelivery(t *testing.T) {
	b := newHB()
	b.add("p", "a")
	b.add("p", "b")
	b.rem("c", "b", true)
	b.rem("c", "a", true)
	if fs := CheckQueueHistory(b.h, 2, nil, 0, true); !strings.Contains(sigs(fs), "fifo/not-linearizable") {
		t.Fatalf("LIFO delivery not flagged: %s", sigs(fs))
	}
}

func TestDuplicateAndInvented(t *testing.T) {
	b := newHB()
	b.add("p", "a")
	b.rem("c", "a", true)
	b.rem("c", "a", true)
	if fs := CheckQueueHistory(b.h, 2, nil, 0, true); !strings.Contains(sigs(fs), "fifo/delivered-twice") {
		t.Fatalf("duplicate delivery not flagged: %s", sigs(fs))
	}
	b = newHB()
	b.rem("c", "ghost", true)
	if fs := CheckQueueHistory(b.h, 2, nil, 0, true); !strings.Contains(sigs(fs), "fifo/invented-value") {
		t.Fatalf("invented value not flagged: %s", sigs(fs))
	}
}

func TestLostValueAndEarlyFalse(t *testing.T) {
	b := newHB()
	b.add("p", "a")
	b.close("k")
	b.rem("c", "", false) // ok=false although a is still queued
	if fs := CheckQueueHistory(b.h, 2, nil, 0, true); !strings.Contains(sigs(fs), "fifo/value-lost") {
		t.Fatalf("lost value not flagged: %s", sigs(fs))
	}
	b = newHB()
	b.add("p", "a")
	b.rem("c", "", false) // ok=false on an open queue
	if fs := CheckQueueHistory(b.h, 2, []string{"a"}, 1, false); !strings.Contains(sigs(fs), "fifo/not-linearizable") {
		t.Fatalf("ok=false on an open, non-empty queue not flagged: %s", sigs(fs))
	}
}

func TestBackPressureAndObservers(t *testing.T) {
	b := newHB()
	b.add("p", "a")
	b.add("p", "b") // returned although capacity is 1 and nothing was removed
	b.rem("c", "a", true)
	b.rem("c", "b", true)
	if fs := CheckQueueHistory(b.h, 1, nil, 0, true); !strings.Contains(sigs(fs), "backpressure/add-returned-while-full") {
		t.Fatalf("back-pressure violation not flagged: %s", sigs(fs))
	}
	b = newHB()
	b.add("p", "a")
	o := b.h.CallOp("o", "size", "")
	o.N = 0 // a completed addition is unclaimed
	b.h.RetOp(o)
	b.rem("c", "a", true)
	if fs := CheckQueueHistory(b.h, 1, nil, 0, true); !strings.Contains(sigs(fs), "observer/size-too-small") {
		t.Fatalf("stale GetSize not flagged: %s", sigs(fs))
	}
	b = newHB()
	b.add("p", "a")
	b.rem("c", "a", true)
	o = b.h.CallOp("o", "array", "")
	o.Arr = []string{"a"} // shows a value that was already delivered
	b.h.RetOp(o)
	if fs := CheckQueueHistory(b.h, 1, nil, 0, true); !strings.Contains(sigs(fs), "observer/array-shows-removed") {
		t.Fatalf("AsArray showing a removed value not flagged: %s", sigs(fs))
	}
}

func TestRemoveAllDiscards(t *testing.T) {
	b := newHB()
	b.add("p", "a")
	b.add("p", "b")
	r := b.h.CallOp("r", "removeall", "")
	b.h.RetOp(r)
	b.add("p", "c")
	b.rem("c", "c", true)
	if fs := CheckQueueHistory(b.h, 2, nil, 0, true); len(fs) != 0 {
		t.Fatalf("values discarded by RemoveAll flagged: %s", sigs(fs))
	}
	// a value discarded although it was added after the RemoveAll returned
	b = newHB()
	r = b.h.CallOp("r", "removeall", "")
	b.h.RetOp(r)
	b.add("p", "late")
	if fs := CheckQueueHistory(b.h, 2, nil, 0, true); !strings.Contains(sigs(fs), "fifo/not-linearizable") {
		t.Fatalf("a value lost after RemoveAll returned not flagged: %s", sigs(fs))
	}
}
