package conc

import (
	"fmt"
	"os"
	"os/exec"
	"runtime"
	"strings"
	"sync"

	mod "github.com/craterdog/go-collection-framework/v4"
	age "github.com/craterdog/go-collection-framework/v4/agent"
	cdc "github.com/craterdog/go-collection-framework/v4/cdcn"
	col "github.com/craterdog/go-collection-framework/v4/collection"

	"verif/harness/internal/core"
)

// ---- C19: distinct instances are independent across goroutines ----

// A family is a deterministic script over instances it creates itself; it
// returns a transcript.  Nothing is shared between two runs of a script except
// what the library shares behind the scenes.
type family struct {
	name string
	run  func(seed uint64) string
}

func lcg(x *uint64) int {
	*x = *x*6364136223846793005 + 1442695040888963407
	return int(*x >> 33)
}

var families = []family{
	{"build", func(seed uint64) string {
		n := cdc.Notation().Make()
		var sb strings.Builder
		l := col.List[int](n).Make()
		s := col.Set[string](n).Make()
		c := col.Catalog[string, int](n).Make()
		for i := 0; i < 60; i++ {
			v := lcg(&seed) % 50
			l.AppendValue(v)
			s.AddValue(fmt.Sprint("k", v%17))
			c.SetValue(fmt.Sprint("k", v%13), v)
		}
		fmt.Fprint(&sb, l.AsArray(), s.AsArray(), c.GetKeys().AsArray())
		return sb.String()
	}},
	{"mutate", func(seed uint64) string {
		n := cdc.Notation().Make()
		l := col.List[[]int](n).Make()
		st := col.Stack[int](n).Make()
		m := col.Map[int, string](n).Make()
		for i := 0; i < 40; i++ {
			v := lcg(&seed) % 20
			l.InsertValue(uint(v%(l.GetSize()+1)), []int{v, i})
			if l.GetSize() > 10 {
				l.RemoveValue(1 + v%l.GetSize())
			}
			if st.GetSize() < 10 {
				st.AddValue(v)
			} else {
				st.RemoveTop()
			}
			m.SetValue(v%7, fmt.Sprint(i))
		}
		return fmt.Sprint(l.AsArray(), st.AsArray(), m.GetSize(), m.GetValue(3))
	}},
	{"search", func(seed uint64) string {
		n := cdc.Notation().Make()
		l := col.List[[]int](n).Make()
		for i := 0; i < 30; i++ {
			l.AppendValue([]int{i % 7, i % 3})
		}
		var out []int
		for i := 0; i < 40; i++ {
			v := lcg(&seed)
			out = append(out, l.GetIndex([]int{v % 7, v % 3}))
		}
		s := col.Set[[]int](n).MakeFromArray(l.AsArray())
		return fmt.Sprint(out, s.GetSize(), s.GetIndex([]int{3, 1}), s.ContainsValue([]int{9, 9}))
	}},
	{"sort-default-ranker", func(seed uint64) string {
		n := cdc.Notation().Make()
		vals := make([][]int, 40)
		for i := range vals {
			vals[i] = []int{lcg(&seed) % 5, lcg(&seed) % 5, i}
		}
		a := col.Array[[]int](n).MakeFromArray(vals)
		a.SortValues()
		// the default sorter of a composite type
		w := make([][]int, len(vals))
		copy(w, vals)
		age.Sorter[[]int]().Make().SortValues(w)
		ints := make([]int, 50)
		for i := range ints {
			ints[i] = lcg(&seed) % 100
		}
		age.Sorter[int]().Make().SortValues(ints)
		c := col.Catalog[string, []int](n).Make()
		for i := 0; i < 12; i++ {
			c.SetValue(fmt.Sprint("k", lcg(&seed)%9), []int{i})
		}
		c.SortValues()
		return fmt.Sprint(a.AsArray(), w, ints, c.GetKeys().AsArray())
	}},
	{"compare-rank", func(seed uint64) string {
		n := cdc.Notation().Make()
		coll := age.Collator[any]().Make()
		mk := func() any {
			return col.List[any](n).MakeFromArray([]any{int64(lcg(&seed) % 3), []any{"x", int64(lcg(&seed) % 2)}, map[string]any{"k": int64(lcg(&seed) % 2)}})
		}
		var out []string
		for i := 0; i < 40; i++ {
			a, b := mk(), mk()
			out = append(out, fmt.Sprint(coll.CompareValues(a, b), coll.RankValues(a, b)))
		}
		return strings.Join(out, " ")
	}},
	{"format", func(seed uint64) string {
		n := cdc.Notation().Make()
		var sb strings.Builder
		for i := 0; i < 20; i++ {
			l := col.List[int](n).MakeFromArray([]int{lcg(&seed) % 9, lcg(&seed) % 9, i})
			sb.WriteString(fmt.Sprint(l)) // String() through the class notation
			c := col.Catalog[string, int](n).Make()
			c.SetValue("a", lcg(&seed)%5)
			c.SetValue("b", i)
			sb.WriteString(fmt.Sprint(c))
			sb.WriteString(mod.FormatValue(col.List[any](n).MakeFromArray([]any{int64(i), "s", 0.5})))
			sb.WriteString(n.FormatValue(col.Set[int](n).MakeFromArray([]int{3, 1, lcg(&seed) % 4})))
		}
		return sb.String()
	}},
	{"parse", func(seed uint64) string {
		n := cdc.Notation().Make()
		var sb strings.Builder
		for i := 0; i < 15; i++ {
			src := fmt.Sprintf("[\n    %d\n    \"a\"\n    [1, 2, %d](List)\n    [\"k\": %d](Catalog)\n](Array)\n", lcg(&seed)%100, i, lcg(&seed)%7)
			v := n.ParseSource(src)
			sb.WriteString(n.FormatValue(v))
			w := mod.ParseSource("[1, 2, 3, 4, 5, 6, 7, 8, 9, 10, 11, 12, 13, 14, 15, 16, 17, 18, 19, 20](Set)")
			sb.WriteString(fmt.Sprint(w.(col.Sequential[any]).GetSize()))
		}
		return sb.String()
	}},
	{"class-functions", func(seed uint64) string {
		n := cdc.Notation().Make()
		S := col.Set[int](n)
		a, b := S.Make(), S.Make()
		for i := 0; i < 20; i++ {
			a.AddValue(lcg(&seed) % 15)
			b.AddValue(lcg(&seed) % 15)
		}
		C := col.Catalog[string, int](n)
		c1, c2 := C.Make(), C.Make()
		for i := 0; i < 10; i++ {
			c1.SetValue(fmt.Sprint("k", lcg(&seed)%8), i)
			c2.SetValue(fmt.Sprint("k", lcg(&seed)%8), 100+i)
		}
		L := col.List[[]int](n)
		l1 := L.MakeFromArray([][]int{{1}, {2, lcg(&seed) % 3}})
		l2 := L.MakeFromArray([][]int{{3}})
		cat := L.Concatenate(l1, l2)
		m := C.Merge(c1, c2)
		e := C.Extract(m, c2.GetKeys())
		return fmt.Sprint(S.And(a, b).AsArray(), S.Or(a, b).AsArray(), S.Sans(a, b).AsArray(), S.Xor(a, b).AsArray(),
			m.GetKeys().AsArray(), e.GetSize(), cat.AsArray(), cat.GetIndex([]int{3}))
	}},
	{"queue-pipeline", func(seed uint64) string {
		// every goroutine drives its OWN queues (with their own helper goroutines)
		n := cdc.Notation().Make()
		Q := col.Queue[int](n)
		in := Q.MakeWithCapacity(2)
		var g sync.WaitGroup
		out := Q.Join(&g, Q.Split(&g, in, 3))
		k := 10 + lcg(&seed)%20
		go func() {
			for i := 0; i < k; i++ {
				in.AddValue(i)
			}
			in.CloseQueue()
		}()
		var got []int
		for {
			v, ok := out.RemoveHead()
			if !ok {
				break
			}
			got = append(got, v)
		}
		g.Wait()
		return fmt.Sprint(got, out.GetSize())
	}},
	{"iterate", func(seed uint64) string {
		n := cdc.Notation().Make()
		l := col.List[int](n).Make()
		for i := 0; i < 30; i++ {
			l.AppendValue(lcg(&seed) % 10)
		}
		q := col.Queue[int](n).MakeFromArray(l.AsArray())
		sum := 0
		for k := 0; k < 10; k++ {
			it := l.GetIterator()
			for it.HasNext() {
				sum += it.GetNext()
			}
			it.ToSlot(-3)
			sum += it.GetPrevious()
			it2 := q.GetIterator()
			it2.ToEnd()
			for it2.HasPrevious() {
				sum -= it2.GetPrevious()
			}
			l.SetValue(1+k, k)
		}
		return fmt.Sprint(sum, l.AsArray())
	}},
	{"module-constructors", func(seed uint64) string {
		// the universal constructors of the module, every argument form, with the
		// default notation and with a notation of the caller's own
		n := cdc.Notation().Make()
		var sb strings.Builder
		for i := 0; i < 6; i++ {
			a, b := int64(lcg(&seed)%50), int64(lcg(&seed)%50)
			src := fmt.Sprintf("[%d, %d, %d]", a, b, i)
			l1 := mod.List[int64](src + "(List)")
			l2 := mod.List[int64](src+"(List)", n)
			s1 := mod.Set[int64](src + "(Set)")
			st := mod.Stack[int64](src+"(Stack)", n)
			q := mod.Queue[int64](src + "(Queue)")
			ar := mod.Array[int64](src + "(Array)")
			c1 := mod.Catalog[string, int64](fmt.Sprintf("[\"a\": %d, \"b\": %d](Catalog)", a, b))
			m1 := mod.Map[string, int64](fmt.Sprintf("[\"k\": %d](Map)", b), n)
			l3 := mod.List[int64]([]int64{a, b})
			s2 := mod.Set[int64](l3)
			c2 := mod.Catalog[string, int64](map[string]int64{"x": a})
			as := mod.Association[string, int64]("key", b)
			fmt.Fprint(&sb, l1.AsArray(), l2.AsArray(), s1.AsArray(), st.AsArray(), q.AsArray(), ar.AsArray(),
				c1.GetKeys().AsArray(), c1.GetValue("b"), m1.GetValue("k"), l3.AsArray(), s2.AsArray(), c2.GetValue("x"), as.GetKey(), as.GetValue(), ";")
		}
		return sb.String()
	}},
}

// C19Pairs enumerates unordered pairs of families (incl. a family with itself).
func C19Pairs() [][2]int {
	var ps [][2]int
	for i := range families {
		for j := i; j < len(families); j++ {
			ps = append(ps, [2]int{i, j})
		}
	}
	return ps
}

// references are the sequential transcripts (computed before any goroutine starts).
func reference(f family, seed uint64) (t string, p string) {
	defer func() {
		if e := recover(); e != nil {
			p = fmt.Sprint(e)
		}
	}()
	return f.run(seed), ""
}

// RunC19Pair: G goroutines, each running one of two families on its own
// instances; transcripts must equal the sequential references; the race
// detector watches.
func RunC19Pair(c *core.Ctx, idx int) {
	col.VerifSetHook(nil)
	pairs := C19Pairs()
	pr := pairs[idx%len(pairs)]
	rep := idx / len(pairs)
	g := []int{2, 4, 8, 16, 3}[rep%5]
	if rep%3 == 0 {
		runtime.GOMAXPROCS([]int{2, 4, 8, 16}[(rep/3)%4])
	}
	fams := make([]family, g)
	seeds := make([]uint64, g)
	refs := make([]string, g)
	for i := 0; i < g; i++ {
		fams[i] = families[pr[i%2]]
		seeds[i] = c.Rng.Uint64()
		var p string
		refs[i], p = reference(fams[i], seeds[i])
		if p != "" {
			c.Violation("independence/script-panicked-sequentially/"+fams[i].name, "a script panicked when run alone: "+p, nil)
			return
		}
	}
	got := make([]string, g)
	pan := make([]string, g)
	var start, done sync.WaitGroup
	start.Add(1)
	for i := 0; i < g; i++ {
		i := i
		done.Add(1)
		go func() {
			defer done.Done()
			defer func() {
				if e := recover(); e != nil {
					pan[i] = fmt.Sprint(e)
				}
			}()
			start.Wait()
			for k := 0; k < 3; k++ {
				got[i] = fams[i].run(seeds[i])
				if got[i] != refs[i] {
					return
				}
			}
		}()
	}
	start.Done()
	done.Wait()
	cs := map[string]any{"families": []string{families[pr[0]].name, families[pr[1]].name}, "goroutines": g}
	for i := 0; i < g; i++ {
		if pan[i] != "" {
			c.Violation("independence/panic/"+fams[i].name, fmt.Sprintf("script %q on its own instances panicked when run concurrently with %q: %s", fams[i].name, fams[(i+1)%g].name, pan[i]), cs)
			return
		}
		if got[i] != refs[i] {
			cs["sequential"] = clipS(refs[i], 500)
			cs["concurrent"] = clipS(got[i], 500)
			c.Violation("independence/transcript-differs/"+fams[i].name, fmt.Sprintf("script %q on its own instances gave another result when run concurrently with %q than when run alone", fams[i].name, fams[(i+1)%g].name), cs)
			return
		}
	}
	c.Cover("pairs." + families[pr[0]].name + "+" + families[pr[1]].name)
	c.Distinct(core.Mix(uint64(pr[0]), uint64(pr[1]), uint64(g), uint64(rep)))
	if c.WantSample("pair") {
		c.Sample("pair", cs)
	}
}

func clipS(s string, n int) string {
	if len(s) > n {
		return s[:n] + "…"
	}
	return s
}

// ---- class accessors: concurrent first use ----

type classProbe struct {
	name string
	get  func(n col.NotationLike) any
}

func probesFor[T comparable](tag string) []classProbe {
	return []classProbe{
		{"List[" + tag + "]", func(n col.NotationLike) any { return col.List[T](n) }},
		{"Array[" + tag + "]", func(n col.NotationLike) any { return col.Array[T](n) }},
		{"Set[" + tag + "]", func(n col.NotationLike) any { return col.Set[T](n) }},
		{"Stack[" + tag + "]", func(n col.NotationLike) any { return col.Stack[T](n) }},
		{"Queue[" + tag + "]", func(n col.NotationLike) any { return col.Queue[T](n) }},
		{"Collator[" + tag + "]", func(n col.NotationLike) any { return age.Collator[T]() }},
		{"Sorter[" + tag + "]", func(n col.NotationLike) any { return age.Sorter[T]() }},
		{"Iterator[" + tag + "]", func(n col.NotationLike) any { return age.Iterator[T]() }},
		{"Catalog[" + tag + "," + tag + "]", func(n col.NotationLike) any { return col.Catalog[T, T](n) }},
		{"Map[" + tag + "," + tag + "]", func(n col.NotationLike) any { return col.Map[T, T](n) }},
		{"Association[" + tag + "," + tag + "]", func(n col.NotationLike) any { return col.Association[T, T](n) }},
		{"Catalog[" + tag + ",[]" + tag + "]", func(n col.NotationLike) any { return col.Catalog[T, []T](n) }},
		{"Map[string," + tag + "]", func(n col.NotationLike) any { return col.Map[string, T](n) }},
		{"Association[int," + tag + "]", func(n col.NotationLike) any { return col.Association[int, T](n) }},
	}
}

// forty type parameters nobody else in the harness uses
func allProbes() []classProbe {
	var ps []classProbe
	ps = append(ps, probesFor[[1]int8]("[1]int8")...)
	ps = append(ps, probesFor[[2]int8]("[2]int8")...)
	ps = append(ps, probesFor[[3]int8]("[3]int8")...)
	ps = append(ps, probesFor[[4]int8]("[4]int8")...)
	ps = append(ps, probesFor[[5]int8]("[5]int8")...)
	ps = append(ps, probesFor[[6]int8]("[6]int8")...)
	ps = append(ps, probesFor[[7]int8]("[7]int8")...)
	ps = append(ps, probesFor[[8]int8]("[8]int8")...)
	ps = append(ps, probesFor[[9]int8]("[9]int8")...)
	ps = append(ps, probesFor[[10]int8]("[10]int8")...)
	ps = append(ps, probesFor[[1]uint16]("[1]uint16")...)
	ps = append(ps, probesFor[[2]uint16]("[2]uint16")...)
	ps = append(ps, probesFor[[3]uint16]("[3]uint16")...)
	ps = append(ps, probesFor[[4]uint16]("[4]uint16")...)
	ps = append(ps, probesFor[[5]uint16]("[5]uint16")...)
	ps = append(ps, probesFor[[6]uint16]("[6]uint16")...)
	ps = append(ps, probesFor[[7]uint16]("[7]uint16")...)
	ps = append(ps, probesFor[[8]uint16]("[8]uint16")...)
	ps = append(ps, probesFor[[9]uint16]("[9]uint16")...)
	ps = append(ps, probesFor[[10]uint16]("[10]uint16")...)
	ps = append(ps, probesFor[[1]string]("[1]string")...)
	ps = append(ps, probesFor[[2]string]("[2]string")...)
	ps = append(ps, probesFor[[3]string]("[3]string")...)
	ps = append(ps, probesFor[[4]string]("[4]string")...)
	ps = append(ps, probesFor[[5]string]("[5]string")...)
	ps = append(ps, probesFor[[6]string]("[6]string")...)
	ps = append(ps, probesFor[[7]string]("[7]string")...)
	ps = append(ps, probesFor[[8]string]("[8]string")...)
	ps = append(ps, probesFor[[9]string]("[9]string")...)
	ps = append(ps, probesFor[[10]string]("[10]string")...)
	ps = append(ps, probesFor[[1]bool]("[1]bool")...)
	ps = append(ps, probesFor[[2]bool]("[2]bool")...)
	ps = append(ps, probesFor[[3]bool]("[3]bool")...)
	ps = append(ps, probesFor[[4]bool]("[4]bool")...)
	ps = append(ps, probesFor[[5]bool]("[5]bool")...)
	ps = append(ps, probesFor[[6]bool]("[6]bool")...)
	ps = append(ps, probesFor[[7]bool]("[7]bool")...)
	ps = append(ps, probesFor[[8]bool]("[8]bool")...)
	ps = append(ps, probesFor[[9]bool]("[9]bool")...)
	ps = append(ps, probesFor[[10]bool]("[10]bool")...)
	// interface-typed parameters (their zero value is nil, whatever the interface)
	ps = append(ps, probesFor[any]("any")...)
	ps = append(ps, probesFor[fmt.Stringer]("fmt.Stringer")...)
	ps = append(ps, probesFor[error]("error")...)
	ps = append(ps, probesFor[col.ListLike[int]]("ListLike[int]")...)
	ps = append(ps, probesFor[interface{ M17() }]("interface{M17()}")...)
	return ps
}

// RunC19Classes: every accessor is called from 16 goroutines at once; all
// callers must receive the one class of that type.
func RunC19Classes(c *core.Ctx, idx int) {
	col.VerifSetHook(nil)
	ps := allProbes()
	const G = 16
	// half of the callers share one notation instance, the others bring their own:
	// the class of a type is the one class whichever notation a caller holds
	shared := cdc.Notation().Make()
	res := make([][]any, G)
	var start, done sync.WaitGroup
	start.Add(1)
	for g := 0; g < G; g++ {
		g := g
		res[g] = make([]any, len(ps))
		done.Add(1)
		go func() {
			defer done.Done()
			var n col.NotationLike = shared
			if g%2 == 1 {
				n = cdc.Notation().Make()
			}
			start.Wait()
			for k := range ps {
				// different goroutines walk the table from different offsets
				i := (k + g*7) % len(ps)
				res[g][i] = ps[i].get(n)
			}
		}()
	}
	start.Done()
	done.Wait()
	for i := range ps {
		for g := 1; g < G; g++ {
			if res[g][i] != res[0][i] {
				c.Violation("classes/not-the-one-class", fmt.Sprintf("two goroutines received different classes for %s", ps[i].name), map[string]any{"accessor": ps[i].name})
				return
			}
		}
		if res[0][i] != ps[i].get(shared) {
			c.Violation("classes/not-the-one-class", fmt.Sprintf("a later call received a different class for %s", ps[i].name), map[string]any{"accessor": ps[i].name})
			return
		}
		if res[0][i] != ps[i].get(cdc.Notation().Make()) {
			c.Violation("classes/not-the-one-class/other-notation", fmt.Sprintf("a later call holding another notation instance received a different class for %s", ps[i].name), map[string]any{"accessor": ps[i].name})
			return
		}
	}
	// an instance names the same one class as the accessor does
	{
		type fresh [11]uint16
		n := cdc.Notation().Make()
		pairs := []struct {
			name     string
			inst, ac any
		}{
			{"Array", col.Array[fresh](n).Make(1).GetClass(), col.Array[fresh](n)},
			{"List", col.List[fresh](n).Make().GetClass(), col.List[fresh](n)},
			{"Set", col.Set[fresh](n).Make().GetClass(), col.Set[fresh](n)},
			{"Stack", col.Stack[fresh](n).Make().GetClass(), col.Stack[fresh](n)},
			{"Queue", col.Queue[fresh](n).Make().GetClass(), col.Queue[fresh](n)},
			{"Catalog", col.Catalog[fresh, int](n).Make().GetClass(), col.Catalog[fresh, int](n)},
			{"Map", col.Map[fresh, int](n).Make().GetClass(), col.Map[fresh, int](n)},
		}
		for _, p := range pairs {
			if p.inst != p.ac {
				c.Violation("classes/not-the-one-class", fmt.Sprintf("GetClass() of a %s and the accessor %s[T](notation) name different classes", p.name, p.name), map[string]any{"accessor": p.name})
				return
			}
		}
		// ... also when the first caller had no notation to give (that is how GetClass() asks)
		type fresh2 [12]uint16
		if a0, a1 := col.Array[fresh2](nil), col.Array[fresh2](n); any(a0) != any(a1) {
			c.Violation("classes/not-the-one-class", "Array[T](nil) followed by Array[T](notation) returned two classes", map[string]any{"accessor": "Array"})
			return
		}
		if l0, l1 := col.List[fresh2](nil), col.List[fresh2](n); any(l0) != any(l1) {
			c.Violation("classes/not-the-one-class", "List[T](nil) followed by List[T](notation) returned two classes", map[string]any{"accessor": "List"})
			return
		}
		c.Cover("classes.getclass-agrees-with-accessor")
		c.Cover("classes.callers-with-distinct-notations")
	}
	c.CoverN("classes.accessors-probed", len(ps))
	if idx == 0 {
		c.Cover("classes.first-use-in-this-process")
	}
	c.Distinct(core.Mix(0xc1a55, uint64(idx)))
	if c.WantSample("classes") {
		c.Sample("classes", map[string]any{"accessors": len(ps), "goroutines": G})
	}
}

// ---- reproducers (run in the race-detector build) ----

func concurrently(g int, f func(i int) string) []string {
	out := make([]string, g)
	var wg sync.WaitGroup
	for i := 0; i < g; i++ {
		i := i
		wg.Add(1)
		go func() {
			defer wg.Done()
			defer func() {
				if e := recover(); e != nil {
					out[i] = "panic: " + fmt.Sprint(e)
				}
			}()
			out[i] = f(i)
		}()
	}
	wg.Wait()
	return out
}

func ReproStringRace() (bool, string) {
	n := cdc.Notation().Make()
	res := concurrently(8, func(i int) string {
		l := col.List[int](n).MakeFromArray([]int{i, i + 1, i + 2})
		want := fmt.Sprintf("[\n    %d\n    %d\n    %d\n](List)\n", i, i+1, i+2)
		for k := 0; k < 400; k++ {
			if got := fmt.Sprint(l); got != want {
				return fmt.Sprintf("String() of list %d returned %q", i, got)
			}
		}
		return ""
	})
	for _, r := range res {
		if r != "" {
			return true, r
		}
	}
	return false, "String() of different lists from 8 goroutines returned the right texts (race reports, if any, are in the output)"
}

func ReproSorterRace() (bool, string) {
	res := concurrently(8, func(i int) string {
		for k := 0; k < 200; k++ {
			vals := [][]int{{3, i}, {1, k}, {2}, {1, 0}}
			age.Sorter[[]int]().Make().SortValues(vals)
			if vals[0][0] != 1 || vals[3][0] != 3 {
				return fmt.Sprint("default sorter misordered ", vals)
			}
		}
		return ""
	})
	for _, r := range res {
		if r != "" {
			return true, r
		}
	}
	return false, "default sorters of [][]int from 8 goroutines sorted correctly (race reports, if any, are in the output)"
}

// ---- cold start: the first use of everything happens concurrently ----

// ColdMain runs in a fresh child process (vcheck-race cold <a> <b> <g> <seed>):
// g goroutines run the two families at once with NO sequential warm-up, so
// lazily initialised shared state is first touched concurrently; the
// references are computed afterwards.
func ColdMain(args []string) int {
	if len(args) != 4 {
		return 2
	}
	var a, b, g int
	var seed uint64
	fmt.Sscan(args[0], &a)
	fmt.Sscan(args[1], &b)
	fmt.Sscan(args[2], &g)
	fmt.Sscan(args[3], &seed)
	col.VerifSetHook(nil)
	if a < 0 {
		// class accessors: every first use happens concurrently in this fresh process
		ps := allProbes()
		res := make([][]any, g)
		for i := range res {
			res[i] = make([]any, len(ps))
		}
		var start, done sync.WaitGroup
		start.Add(1)
		for w := 0; w < g; w++ {
			w := w
			done.Add(1)
			go func() {
				defer done.Done()
				// every caller holds a notation instance of its own
				n := cdc.Notation().Make()
				start.Wait()
				for k := range ps {
					i := (k + w*5) % len(ps)
					res[w][i] = ps[i].get(n)
				}
			}()
		}
		start.Done()
		done.Wait()
		for i := range ps {
			for w := 1; w < g; w++ {
				if res[w][i] != res[0][i] {
					fmt.Printf("COLD-DIFF two goroutines received different classes for %s at its first use\n", ps[i].name)
					return 0
				}
			}
		}
		fmt.Println("COLD-OK")
		return 0
	}
	fams := make([]family, g)
	seeds := make([]uint64, g)
	for i := range fams {
		fams[i] = families[[]int{a, b}[i%2]]
		seeds[i] = seed + uint64(i)*977
	}
	got := concurrently(g, func(i int) string { return fams[i].run(seeds[i]) })
	for i := range fams {
		ref, p := reference(fams[i], seeds[i])
		if p != "" {
			fmt.Printf("COLD-DIFF script %q panicked when run alone: %s\n", fams[i].name, p)
			return 0
		}
		if got[i] != ref {
			fmt.Printf("COLD-DIFF script %q (first use, concurrent with %q) gave %q, alone it gives %q\n", fams[i].name, fams[(i+1)%g].name, clipS(got[i], 200), clipS(ref, 200))
			return 0
		}
	}
	fmt.Println("COLD-OK")
	return 0
}

// RunC19Cold spawns the cold-start child and reads its verdict and race reports.
func RunC19Cold(c *core.Ctx, idx int) {
	pairs := C19Pairs()
	pr := pairs[idx%len(pairs)]
	g := []int{2, 4, 8}[(idx/len(pairs))%3]
	if idx%len(pairs) == 0 {
		// one slot per round is used for the class accessors at first use
		pr = [2]int{-1, -1}
		g = 16
	}
	exe, _ := os.Executable()
	cmd := exec.Command(exe, "cold", fmt.Sprint(pr[0]), fmt.Sprint(pr[1]), fmt.Sprint(g), fmt.Sprint(c.Rng.Uint64()%1000000))
	cmd.Env = append(os.Environ(), "GORACE=halt_on_error=0")
	out, _ := cmd.CombinedOutput()
	s := string(out)
	cs := map[string]any{"goroutines": g}
	if pr[0] >= 0 {
		cs["families"] = []string{families[pr[0]].name, families[pr[1]].name}
	} else {
		cs["families"] = []string{"class accessors at first use"}
	}
	switch {
	case strings.Contains(s, "WARNING: DATA RACE"):
		blk := s[strings.Index(s, "WARNING: DATA RACE"):]
		// signature from the first repository frame
		sig := "race/cold-start"
		for _, line := range strings.Split(blk, "\n") {
			t := strings.TrimSpace(line)
			if strings.HasPrefix(t, core.RepoPrefix) {
				fn := strings.TrimPrefix(t, core.RepoPrefix+"/")
				if i := strings.Index(fn, "("); i > 0 && !strings.HasPrefix(fn, "(") {
					fn = fn[:i]
				}
				sig += "/" + strings.NewReplacer("(*", "", ")", "").Replace(strings.SplitN(fn, "[", 2)[0])
				break
			}
		}
		if !strings.Contains(blk, core.RepoPrefix) {
			c.Inconclusive("cold start: a race report without a repository frame (harness?)")
			return
		}
		c.Violation(sig, "first use from several goroutines at once: "+clipS(blk, 1500), cs)
	case strings.Contains(s, "fatal error:"):
		c.Violation("cold-start/fatal-error", clipS(s[strings.Index(s, "fatal error:"):], 800), cs)
	case strings.Contains(s, "COLD-DIFF"):
		c.Violation("independence/transcript-differs/cold-start", clipS(s[strings.Index(s, "COLD-DIFF"):], 600), cs)
	case strings.Contains(s, "COLD-OK"):
		c.Cover("cold-start-runs")
		c.Distinct(core.Mix(0xc01d, uint64(pr[0]+1), uint64(pr[1]+1), uint64(g)))
		if pr[0] < 0 {
			c.Cover("cold-start-class-accessors")
		}
		if c.WantSample("cold-start") {
			c.Sample("cold-start", cs)
		}
	default:
		c.Inconclusive("cold start child gave no verdict: " + clipS(s, 200))
	}
}

// RunC19Derived: instances that were derived from one another.  The sets that
// And, Or, Sans and Xor return, and sorters made with the class's default
// ranker, are different instances from their operands and from each other;
// each is used by its own goroutine (values are slices, so that ranking them
// is a traversal with state) and must behave as it does alone.
func RunC19Derived(c *core.Ctx, idx int) {
	col.VerifSetHook(nil)
	seed := c.Rng.Uint64()
	n := cdc.Notation().Make()
	nest := func(k int) []any {
		var v []any = []any{int64(k % 5), int64(k)}
		for d := 0; d < 6; d++ {
			v = []any{v}
		}
		return v
	}
	build := func() (insts []any, names []string) {
		s := seed
		S := col.Set[any](n)
		a, b := S.Make(), S.Make()
		for i := 0; i < 12; i++ {
			a.AddValue(nest(lcg(&s) % 16))
			b.AddValue(nest(lcg(&s) % 16))
		}
		insts = []any{a, b, S.And(a, b), S.Or(a, b), S.Sans(a, b), S.Xor(a, b)}
		names = []string{"A", "B", "And(A,B)", "Or(A,B)", "Sans(A,B)", "Xor(A,B)"}
		for i := 0; i < 4; i++ {
			insts = append(insts, age.Sorter[any]().MakeWithRanker(age.Sorter[any]().DefaultRanker()))
			names = append(names, fmt.Sprintf("sorter %d made with the class's default ranker", i+1))
		}
		return
	}
	script := func(inst any, k int) string {
		s := seed + uint64(k)*977
		switch x := inst.(type) {
		case col.SetLike[any]:
			var out []any
			for i := 0; i < 60; i++ {
				v := nest(lcg(&s) % 16)
				out = append(out, x.ContainsValue(v), x.GetIndex(v))
				if i%7 == 3 {
					x.AddValue(v)
				} else if i%7 == 5 {
					x.RemoveValue(v)
				}
			}
			return fmt.Sprint(out, x.GetSize())
		case age.SorterLike[any]:
			vals := make([]any, 40)
			for i := range vals {
				vals[i] = nest(lcg(&s) % 16)
			}
			x.SortValues(vals)
			return fmt.Sprint(vals)
		}
		return ""
	}
	// sequential reference on an identical build
	refI, names := build()
	refs := make([]string, len(refI))
	for k, inst := range refI {
		var p string
		func() {
			defer func() {
				if e := recover(); e != nil {
					p = fmt.Sprint(e)
				}
			}()
			refs[k] = script(inst, k)
		}()
		if p != "" {
			c.Violation("derived/script-panicked-sequentially", "the script of "+names[k]+" panicked when run alone: "+p, nil)
			return
		}
	}
	insts, _ := build()
	got := make([]string, len(insts))
	pan := make([]string, len(insts))
	var start, done sync.WaitGroup
	start.Add(1)
	for k := range insts {
		k := k
		done.Add(1)
		go func() {
			defer done.Done()
			defer func() {
				if e := recover(); e != nil {
					pan[k] = fmt.Sprint(e)
				}
			}()
			start.Wait()
			got[k] = script(insts[k], k)
		}()
	}
	start.Done()
	done.Wait()
	for k := range insts {
		cs := map[string]any{"instance": names[k]}
		if pan[k] != "" {
			c.Violation("derived/panic", fmt.Sprintf("operations on %s panicked while the instances it was derived from (or with) were used by other goroutines: %s", names[k], clipS(pan[k], 200)), cs)
			return
		}
		if got[k] != refs[k] {
			cs["sequential"], cs["concurrent"] = clipS(refs[k], 300), clipS(got[k], 300)
			c.Violation("derived/transcript-differs", "operations on "+names[k]+" gave another result than when run alone", cs)
			return
		}
	}
	c.Cover("derived.instances")
	c.Distinct(core.Mix(0xde71, seed))
}

// ReproSharedCollator (race build): a set and the set Or returned for it are
// used by two goroutines.
func ReproSharedCollator() (bool, string) {
	n := cdc.Notation().Make()
	nest := func(k int) []any {
		var v []any = []any{int64(k)}
		for d := 0; d < 10; d++ {
			v = []any{v}
		}
		return v
	}
	S := col.Set[any](n)
	a, b := S.Make(), S.Make()
	for i := 0; i < 8; i++ {
		a.AddValue(nest(i))
		b.AddValue(nest(i + 4))
	}
	r := S.Or(a, b)
	res := concurrently(2, func(i int) string {
		s := a
		if i == 1 {
			s = r
		}
		for k := 0; k < 3000; k++ {
			if !s.ContainsValue(nest(k % 8)) {
				return fmt.Sprintf("ContainsValue(member %d) = false", k%8)
			}
		}
		return ""
	})
	for _, x := range res {
		if x != "" {
			return true, "a set and the result of Or(a, b), used from two goroutines: " + x
		}
	}
	return false, "a set and the result of Or(a, b) can be used from two goroutines (race reports, if any, are in the output)"
}
