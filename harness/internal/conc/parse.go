package conc

import (
	"fmt"

	mod "github.com/craterdog/go-collection-framework/v4"

	"verif/harness/internal/core"
)

// ---- M1 over the scanner/parser pair (C11, C12) ----

// ParseResult of one controlled schedule of ParseSource(src).
type ParseResult struct {
	Sched *Sched
	Value any
	Panic any
}

// RunParse executes ParseSource(src) as an M1 program: the caller is the only
// client; the scanner goroutine is adopted at its first hook after the spawn
// notification and reports its own end.
func RunParse(rng *core.Rng, src string, forced []int, systematic bool, maxPreempt int) *ParseResult {
	s := NewSched(rng)
	defer s.Deactivate()
	s.Forced, s.Systematic, s.MaxPreempt = forced, systematic, maxPreempt
	res := &ParseResult{Sched: s}
	go func() {
		s.Begin("parser")
		defer s.End()
		defer func() {
			// a diagnostic panic is a legal outcome of ParseSource: it does not abort the schedule
			res.Panic = recover()
		}()
		res.Value = mod.ParseSource(src)
	}()
	s.Run(1)
	return res
}

// ExploreParse explores the schedules of ParseSource(src) depth-first with a
// preemption bound and calls check for each completed schedule; it returns the
// number explored and a verdict string ("" = all fine).
func ExploreParse(src string, budget, maxPreempt int, check func(r *ParseResult) string) (int, string, []string) {
	var forced []int
	explored, nAbandoned := 0, 0
	AbandonedParses = map[string]int{}
	for explored < budget {
		r := RunParse(core.NewRng(7), src, forced, true, maxPreempt)
		explored++
		abandoned := false
		switch {
		case r.Sched.Unrepresentable():
			AbandonedParses[r.Sched.AbandonReason()]++
			abandoned = true
			nAbandoned++
		case r.Sched.Stuck():
			stuckSchedules++
			return explored, "inconclusive: a released goroutine never reached a hook again", r.Sched.Trace
		case r.Sched.Deadlock() != "":
			return explored, "deadlock: " + r.Sched.Deadlock(), r.Sched.Trace
		case r.Sched.NotClosed() != "":
			return explored, r.Sched.NotClosed(), r.Sched.Trace
		}
		if !abandoned {
			if d := check(r); d != "" {
				return explored, d, r.Sched.Trace
			}
		}
		ch := r.Sched.Choices
		k := len(ch) - 1
		for k >= 0 && ch[k][1]+1 >= ch[k][0] {
			k--
		}
		if k < 0 {
			return explored - nAbandoned, "", nil
		}
		forced = forced[:0]
		for i := 0; i < k; i++ {
			forced = append(forced, ch[i][1])
		}
		forced = append(forced, ch[k][1]+1)
	}
	return explored - nAbandoned, "", nil
}

// AbandonedParses counts, per reason, the schedules of the last ExploreParse
// call that were abandoned without a verdict.
var AbandonedParses = map[string]int{}

// M1Disabled exposes the stuck-schedule guard to other packages.
func M1Disabled(c *core.Ctx) bool { return m1Disabled(c) }

// Describe is a helper for violation messages.
func (r *ParseResult) Describe() string {
	if r.Panic != nil {
		return fmt.Sprintf("panic: %.120v", r.Panic)
	}
	return fmt.Sprintf("value of type %T", r.Value)
}
