package conc

import (
	"fmt"
	"runtime"
	"strings"
	"sync"
	"sync/atomic"
	"time"

	mod "github.com/craterdog/go-collection-framework/v4"
	col "github.com/craterdog/go-collection-framework/v4/collection"

	"verif/harness/internal/core"
)

// stuckSchedules counts M1 schedules of this worker process in which a
// released goroutine neither parked nor ended.  Each costs a 3 s watchdog; on a
// tree where that is the norm the remaining M1 cases are skipped (inconclusive)
// so that the check still ends in bounded time.
var stuckSchedules int

const maxStuckSchedules = 6

// timedOutRuns counts M2/M3 runs of this worker process that hit their
// wall-clock watchdog (20-60 s each); after three the remaining real-scheduler
// runs are skipped so that a tree that blocks every run still ends in minutes.
var timedOutRuns int

func realSchedulerDisabled(c *core.Ctx) bool {
	if timedOutRuns >= 3 {
		c.Inconclusive("real-scheduler runs skipped in this worker after three runs that hit their watchdog (the first ones are reported)")
		return true
	}
	return false
}

func m1Disabled(c *core.Ctx) bool {
	if stuckSchedules >= maxStuckSchedules {
		c.Inconclusive("M1 skipped in this worker after 6 schedules in which a released goroutine never reached a hook again (watchdog, not a verdict)")
		return true
	}
	return false
}

func traceHash(s *Sched) uint64 { return core.HashStr(strings.Join(s.Trace, ">")) }

func absorbCov(c *core.Ctx, s *Sched) {
	for k, v := range s.Cov {
		c.CoverN("m1."+k, v)
	}
}

// reportM1 handles the outcomes every M1 run shares; true = the schedule
// completed normally.
func reportM1(c *core.Ctx, s *Sched, panicMsg string, cs map[string]any, deadlockIsViolation bool) bool {
	cs["schedule"] = s.Trace
	if prog, _ := cs["program"].(string); strings.Contains(prog, "consumers may starve") && s.Deadlock() != "" {
		if strings.Contains(s.Deadlock(), "reset:") {
			c.Violation("m1/removeall-never-returns", "RemoveAll is blocked for ever: "+s.Deadlock(), cs)
		} else {
			c.Cover("m1.legitimate-starvation-after-removeall")
		}
		return false
	}
	if s.NotClosed() != "" {
		c.Violation("m1/close-does-not-close", s.NotClosed(), cs)
		return false
	}
	if s.Stuck() {
		stuckSchedules++
	}
	switch {
	case s.Unrepresentable():
		c.Cover(s.AbandonReason())
		return false
	case s.Stuck():
		c.Inconclusive("M1: a released goroutine neither reached a hook nor ended within 3 s (watchdog, not a verdict)")
		return false
	case panicMsg != "":
		c.Violation("m1/panic-in-valid-call", "a call that is valid on its own panicked: "+panicMsg, cs)
		return false
	case s.Aborted() != "":
		c.Violation("m1/panic-in-valid-call", "aborted: "+s.Aborted(), cs)
		return false
	case s.Deadlock() != "":
		sig := "m1/deadlock"
		if strings.Contains(s.Deadlock(), "no longer the queue's") {
			sig += "/committed-to-replaced-channel"
		}
		if deadlockIsViolation {
			c.Violation(sig, "the schedule reached a state in which goroutines are unfinished and none can proceed: "+s.Deadlock(), cs)
		} else {
			c.Cover("m1.deadlocked-schedules(reported-by-C05)")
		}
		return false
	}
	return true
}

// RunC04M1: one schedule of one generated program, all offline checkers.
func RunC04M1(c *core.Ctx) {
	if m1Disabled(c) {
		return
	}
	p := GenQProgram(c.Rng, true)
	res := RunQProgram(c.Rng.Fork(), p)
	cs := map[string]any{"program": p.String(), "history": res.Hist.Strings()}
	absorbCov(c, res.Sched)
	if !reportM1(c, res.Sched, res.Panic, cs, true) {
		return
	}
	for _, f := range res.Check() {
		if strings.HasPrefix(f.Sig, "inconclusive/") {
			c.Inconclusive(f.Msg)
			continue
		}
		cs["final"] = res.Final
		c.Violation(f.Sig, f.Msg, cs)
		return
	}
	c.Cover("m1.schedules")
	if p.RemoveAll {
		c.Cover("m1.schedules-with-removeall")
	}
	c.Distinct(core.Mix(core.HashStr(p.String()), traceHash(res.Sched)))
	if c.WantSample("m1-schedule") {
		c.Sample("m1-schedule", map[string]any{"program": p.String(), "schedule": res.Sched.Trace, "history": res.Hist.Strings()})
	}
}

// RunC05M1: well-formed producer/consumer/closer programs; the deadlock oracle
// and the terminal conservation check.
func RunC05M1(c *core.Ctx) {
	if m1Disabled(c) {
		return
	}
	p := GenQProgram(c.Rng, true)
	if !p.Closer && !p.StarvationOK {
		p.Closer = true
		for i := range p.Consumers {
			p.Consumers[i] = -1
		}
	}
	res := RunQProgram(c.Rng.Fork(), p)
	cs := map[string]any{"program": p.String(), "history": res.Hist.Strings()}
	absorbCov(c, res.Sched)
	if !reportM1(c, res.Sched, res.Panic, cs, true) {
		return
	}
	// terminal: every value consumed (or discarded by the RemoveAll), nothing left, everybody finished
	added, delivered := 0, 0
	for _, o := range res.Hist.Ops {
		if o.Ret == 0 {
			c.Violation("m1/operation-never-returned", "operation "+o.String()+" never returned although the schedule ended", cs)
			return
		}
		switch {
		case o.Kind == "add":
			added++
		case o.Kind == "rem" && o.Ok:
			delivered++
		}
	}
	if !p.StarvationOK && (len(res.Final) != 0 || (!p.RemoveAll && delivered != added)) {
		c.Violation("m1/values-not-consumed", fmt.Sprintf("%d values added, %d consumed, %v left in the queue after the program terminated", added, delivered, res.Final), cs)
		return
	}
	c.Cover("m1.well-formed-programs-terminated")
	if p.RemoveAll {
		c.Cover("m1.schedules-with-removeall")
	}
	c.Distinct(core.Mix(core.HashStr(p.String()), traceHash(res.Sched)))
	if c.WantSample("m1-termination") {
		c.Sample("m1-termination", map[string]any{"program": p.String(), "schedule": res.Sched.Trace})
	}
}

// RunC05Constructor: a queue constructor with n initial values as a
// single-goroutine M1 program: "the only goroutine is committed to its own
// full queue" is the verdict, no clock involved.
func RunC05Constructor(c *core.Ctx, idx int) {
	forms := []string{"class.MakeFromArray", "class.MakeFromSequence", "module.Queue(values)", "module.Queue(sequence)", "module.Queue(source)", "module.Queue(capacity,values)"}
	form := forms[idx%len(forms)]
	n := idx / len(forms) // 0..64
	vals := make([]int64, n)
	lits := make([]string, n)
	for i := range vals {
		vals[i] = int64(i)
		lits[i] = fmt.Sprint(i)
	}
	cs := map[string]any{"constructor": form, "initial_values": n}
	var q col.QueueLike[int64]
	capacity := 0
	_ = capacity
	{
		// (the source form runs under the scheduler too: the scanner goroutine of the parser
		// announces itself through the spawn/end hooks and is adopted)
		s := NewSched(c.Rng.Fork())
		var pan string
		go func() {
			s.Begin("ctor")
			defer s.End()
			defer func() {
				if e := recover(); e != nil {
					pan = fmt.Sprint(e)
					s.Abort(pan)
				}
			}()
			Q := col.Queue[int64](notation)
			switch form {
			case "class.MakeFromArray":
				q = Q.MakeFromArray(vals)
			case "class.MakeFromSequence":
				q = Q.MakeFromSequence(col.List[int64](notation).MakeFromArray(vals))
			case "module.Queue(values)":
				q = mod.Queue[int64](vals)
			case "module.Queue(sequence)":
				q = mod.Queue[int64](col.List[int64](notation).MakeFromArray(vals))
			case "module.Queue(source)":
				src := "[" + strings.Join(lits, ", ") + "](Queue)"
				if n == 0 {
					src = "[ ](Queue)"
				}
				q = mod.Queue[int64](src)
			case "module.Queue(capacity,values)":
				// not a documented combination: whatever it builds, it must return
				// (or panic), never block on the capacity it was given
				capacity = 1 + n%3
				func() {
					defer func() { recover() }()
					q = mod.Queue[int64](capacity, vals)
				}()
			}
		}()
		s.Run(1)
		s.Deactivate()
		if s.Deadlock() != "" {
			c.Violation("constructor/blocks-on-own-capacity", fmt.Sprintf("%s with %d initial values blocks on the capacity of the queue it is constructing (%s)", form, n, s.Deadlock()), cs)
			return
		}
		if pan != "" {
			c.Violation("constructor/panicked", fmt.Sprintf("%s with %d values panicked: %s", form, n, pan), cs)
			return
		}
		if s.Stuck() {
			c.Inconclusive("M1: constructor run stuck (watchdog)")
			return
		}
	}
	if q == nil || form == "module.Queue(capacity,values)" {
		if form == "module.Queue(capacity,values)" {
			c.Cover("constructor." + form + "(returns)")
			c.Distinct(core.Mix(core.HashStr(form), uint64(n)))
		}
		return
	}
	if got := q.AsArray(); len(got) != n || (n > 0 && (got[0] != 0 || got[n-1] != int64(n-1))) || q.GetSize() != n || int(q.GetCapacity()) < n {
		c.Violation("constructor/wrong-contents", fmt.Sprintf("%s with %d values: size %d capacity %d contents %v", form, n, q.GetSize(), q.GetCapacity(), got), cs)
		return
	}
	c.Cover("constructor." + form)
	if n > 16 {
		c.Cover("constructor.more-than-default-capacity")
	}
	c.Distinct(core.Mix(core.HashStr(form), uint64(n)))
	if c.WantSample("constructor") {
		c.Sample("constructor", cs)
	}
}

// RunC05ParsedLiteral: ParseSource of a Queue literal with n items.
func RunC05ParsedLiteral(c *core.Ctx, n int) {
	lits := make([]string, n)
	for i := range lits {
		lits[i] = fmt.Sprint(i)
	}
	src := "[" + strings.Join(lits, ", ") + "](Queue)"
	if n == 0 {
		src = "[ ](Queue)"
	}
	if n%2 == 1 && n > 0 {
		src = "[\n    " + strings.Join(lits, "\n    ") + "\n](Queue)\n"
	}
	cs := map[string]any{"constructor": "ParseSource(Queue literal)", "initial_values": n}
	done := make(chan any, 1)
	var v any
	go func() {
		defer func() { done <- recover() }()
		v = mod.ParseSource(src)
	}()
	select {
	case e := <-done:
		if e != nil {
			c.Violation("constructor/panicked", fmt.Sprintf("ParseSource of a %d-item Queue literal panicked: %v", n, strings.SplitN(fmt.Sprint(e), "\n", 2)[0]), cs)
			return
		}
	case <-time.After(3 * time.Second):
		if blocked, where := stableBlock("AddValue"); blocked {
			c.Violation("constructor/blocks-on-own-capacity", fmt.Sprintf("ParseSource of a %d-item Queue literal does not return: %s", n, where), cs)
		} else {
			c.Inconclusive("ParseSource did not finish within 3 s and no stable blocked state was observed")
		}
		return
	}
	q, ok := v.(col.QueueLike[any])
	if !ok || q.GetSize() != n {
		c.Violation("constructor/wrong-contents", fmt.Sprintf("ParseSource of a %d-item Queue literal returned %T of size %d", n, v, sizeOf(v)), cs)
		return
	}
	c.Cover("constructor.ParseSource(Queue literal)")
	if n > 16 {
		c.Cover("constructor.more-than-default-capacity")
	}
	c.Distinct(core.Mix(0x9a75e, uint64(n)))
}

func sizeOf(v any) int {
	if s, ok := v.(interface{ GetSize() int }); ok {
		return s.GetSize()
	}
	return -1
}

// stableBlock is the deadlock verdict for runs on the real scheduler: in two
// goroutine dumps one second apart EVERY goroutine that has a repository frame
// is parked in a channel / mutex / wait-group wait (none running or runnable),
// the set of (goroutine, state) is identical, and at least one of them is
// parked inside the named repository function.  Such a state cannot change by
// itself, so the verdict does not depend on how long we waited.
func stableBlock(fn string) (bool, string) {
	snap := func() (string, string, bool) {
		buf := make([]byte, 4<<20)
		buf = buf[:runtime.Stack(buf, true)]
		var sig []string
		where := ""
		for _, g := range strings.Split(string(buf), "\n\n") {
			if !strings.Contains(g, core.RepoPrefix) {
				continue
			}
			head := strings.SplitN(g, "\n", 2)[0]
			parked := false
			for _, st := range []string{"[chan send", "[chan receive", "[sync.Mutex.Lock", "[sync.RWMutex", "[semacquire", "[sync.WaitGroup.Wait", "[select", "[sync.Cond.Wait"} {
				if strings.Contains(head, st) {
					parked = true
				}
			}
			if !parked {
				return "", "", false
			}
			f := strings.Fields(head)
			if len(f) >= 3 {
				sig = append(sig, f[1]+strings.SplitN(f[2], ",", 2)[0])
			}
			if strings.Contains(g, fn) && where == "" {
				where = head
			}
		}
		sortStrings(sig)
		return strings.Join(sig, " "), where, true
	}
	a, wa, oka := snap()
	time.Sleep(time.Second)
	b, wb, okb := snap()
	if oka && okb && a != "" && a == b && wa != "" && wb != "" {
		return true, wa + " in " + fn + " (all goroutines with repository frames parked, identical in two dumps)"
	}
	return false, ""
}

// RunC06M1: one schedule of a stream program.
func RunC06M1(c *core.Ctx, idx int) {
	if m1Disabled(c) {
		return
	}
	shapes := []string{"fork", "split", "splitjoin"}
	p := SProgram{Shape: shapes[idx%3], Length: (idx / 3) % 5, Fan: 2 + (idx/15)%2, Cap: 1 + (idx/30)%2}
	res := RunSProgram(c.Rng.Fork(), p)
	cs := map[string]any{"program": p.String(), "received": res.Outputs}
	absorbCov(c, res.Sched)
	if !reportM1(c, res.Sched, res.Panic, cs, true) {
		return
	}
	for _, f := range CheckStream(res) {
		c.Violation(f.Sig, f.Msg, cs)
		return
	}
	c.Cover("m1.stream-schedules." + p.Shape)
	if p.Length < p.Fan {
		c.Cover("m1.stream-shorter-than-fan-out")
	}
	c.Distinct(core.Mix(core.HashStr(p.String()), traceHash(res.Sched)))
	if c.WantSample("m1-stream/" + p.Shape) {
		c.Sample("m1-stream/"+p.Shape, map[string]any{"program": p.String(), "schedule": res.Sched.Trace, "received": res.Outputs})
	}
}

// ---- M2: recorded stress on the real scheduler ----

var m2clock atomic.Int64

func m2jitter(kind uint8, q any) {
	x := uint64(time.Now().UnixNano())
	x ^= x >> 7
	switch x % 8 {
	case 0, 1:
		runtime.Gosched()
	case 2:
		time.Sleep(time.Duration(x>>4%40) * time.Microsecond)
	}
}

// RunC04M2: an epoch of a larger program on the real scheduler with recorded
// stamps; same offline checkers.
func RunC04M2(c *core.Ctx, idx int) { runM2(c, idx, false) }

// RunC05M2: the same epochs for C05: only termination (no deadlock, no panic)
// is reported.
func RunC05M2(c *core.Ctx, idx int) { runM2(c, idx, true) }

func runM2(c *core.Ctx, idx int, onlyLiveness bool) {
	if realSchedulerDisabled(c) {
		return
	}
	r := c.Rng
	hookOnce.Do(func() { col.VerifSetHook(globalHook) })
	activeMu.Lock()
	active = nil
	activeMu.Unlock()
	col.VerifSetHook(m2jitter)
	defer col.VerifSetHook(globalHook)
	if idx%50 == 0 {
		runtime.GOMAXPROCS([]int{2, 4, 8, 16}[(idx/50)%4])
	}
	capa := r.Range(1, 4)
	np, nc := r.Range(1, 3), r.Range(1, 3)
	per := r.Range(2, 4)
	removeAll := r.Chance(1, 4)
	h := NewHistory(func() int64 { return m2clock.Add(1) })
	q := col.Queue[string](notation).MakeWithCapacity(uint(capa))
	var wgP, wgAll sync.WaitGroup
	var panicMu sync.Mutex
	var panicMsg string
	guard := func(role string, body func()) {
		wgAll.Add(1)
		go func() {
			defer wgAll.Done()
			defer func() {
				if e := recover(); e != nil {
					panicMu.Lock()
					if panicMsg == "" {
						panicMsg = fmt.Sprintf("%s: %v", role, e)
					}
					panicMu.Unlock()
				}
			}()
			body()
		}()
	}
	for i := 0; i < np; i++ {
		role := fmt.Sprintf("p%d", i)
		wgP.Add(1)
		guard(role, func() {
			defer wgP.Done()
			for k := 0; k < per; k++ {
				v := fmt.Sprintf("%s.%d", role, k)
				o := h.CallOp(role, "add", v)
				q.AddValue(v)
				h.RetOp(o)
			}
		})
	}
	for i := 0; i < nc; i++ {
		role := fmt.Sprintf("c%d", i)
		slow := r.Chance(1, 3)
		guard(role, func() {
			for {
				if slow {
					time.Sleep(20 * time.Microsecond)
				}
				o := h.CallOp(role, "rem", "")
				v, ok := q.RemoveHead()
				o.Val, o.Ok = v, ok
				h.RetOp(o)
				if !ok {
					return
				}
			}
		})
	}
	guard("closer", func() {
		wgP.Wait()
		o := h.CallOp("closer", "close", "")
		q.CloseQueue()
		h.RetOp(o)
	})
	for i := 0; i < 2; i++ {
		role := fmt.Sprintf("o%d", i)
		guard(role, func() {
			for k := 0; k < 6; k++ {
				switch k % 3 {
				case 0:
					o := h.CallOp(role, "size", "")
					o.N = q.GetSize()
					h.RetOp(o)
				case 1:
					o := h.CallOp(role, "array", "")
					o.Arr = q.AsArray()
					h.RetOp(o)
				default:
					o := h.CallOp(role, "empty", "")
					o.Empty = q.IsEmpty()
					h.RetOp(o)
				}
				if k%2 == 0 {
					o := h.CallOp(role, "string", "")
					_ = fmt.Sprint(q)
					h.RetOp(o)
				}
				runtime.Gosched()
			}
		})
	}
	if removeAll {
		guard("reset", func() {
			time.Sleep(time.Duration(r.Intn(100)) * time.Microsecond)
			o := h.CallOp("reset", "removeall", "")
			q.RemoveAll()
			h.RetOp(o)
		})
	}
	done := make(chan struct{})
	go func() { wgAll.Wait(); close(done) }()
	cs := map[string]any{"program": fmt.Sprintf("cap=%d producers=%d x %d consumers=%d removeAll=%v", capa, np, per, nc, removeAll)}
	select {
	case <-done:
	case <-time.After(10 * time.Second):
		timedOutRuns++
		cs["history"] = h.Strings()
		if blocked, where := stableBlock("queue_"); blocked {
			c.Violation("m2/deadlock", "a well-formed producer/consumer/closer program did not terminate on the real scheduler: "+where, cs)
		} else {
			c.Inconclusive("M2: an epoch did not finish within 10 s and no stable blocked state was observed")
		}
		return
	}
	if panicMsg != "" {
		cs["history"] = h.Strings()
		c.Violation("m2/panic-in-valid-call", "a call that is valid on its own panicked: "+panicMsg, cs)
		return
	}
	final := q.AsArray()
	if onlyLiveness {
		c.Cover("m2.epochs-terminated")
		c.Distinct(core.HashStr(strings.Join(h.Strings(), "|")))
		return
	}
	for _, f := range CheckQueueHistory(h, capa, final, q.GetSize(), q.IsEmpty()) {
		if strings.HasPrefix(f.Sig, "inconclusive/") {
			c.Inconclusive(f.Msg)
			continue
		}
		cs["history"] = h.Strings()
		c.Violation(strings.Replace(f.Sig, "fifo/", "m2/fifo/", 1), f.Msg, cs)
		return
	}
	c.Cover("m2.epochs")
	c.CoverN("m2.operations", len(h.Ops))
	c.Distinct(core.HashStr(strings.Join(h.Strings(), "|")))
	if c.WantSample("m2-epoch") && len(h.Ops) < 40 {
		c.Sample("m2-epoch", map[string]any{"program": cs["program"], "history": h.Strings()})
	}
}

// ---- reproducers ----

// ReproRemoveAll: 300 schedules of "1 producer x 2 values, 1 consumer until
// closed, closer, one RemoveAll caller, capacity 1".
func ReproRemoveAll() (bool, string) {
	p := QProgram{Cap: 1, Producers: []int{2}, Consumers: []int{-1}, Closer: true, RemoveAll: true}
	stuck := 0
	for seed := uint64(0); seed < 300; seed++ {
		if stuck >= 2 {
			return false, "inconclusive: two controlled schedules of the RemoveAll program got stuck (a released goroutine never reached a hook again)"
		}
		res := RunQProgram(core.NewRng(77, seed), p)
		if res.Sched.Stuck() {
			stuck++
		}
		switch {
		case res.Sched.Deadlock() != "":
			return true, fmt.Sprintf("schedule %v ends in a state where nobody can proceed: %s", res.Sched.Trace, res.Sched.Deadlock())
		case res.Panic != "":
			return true, fmt.Sprintf("schedule %v: %s", res.Sched.Trace, res.Panic)
		case res.Sched.Stuck() || res.Sched.Unrepresentable():
			continue
		}
		for _, f := range res.Check() {
			if !strings.HasPrefix(f.Sig, "inconclusive/") {
				return true, f.Msg
			}
		}
	}
	return false, "300 schedules of the RemoveAll program terminated with linearizable histories"
}

// ReproQueueConstructor: MakeFromArray with 20 values as a single-goroutine M1 program.
func ReproQueueConstructor() (bool, string) {
	s := NewSched(core.NewRng(5))
	defer s.Deactivate()
	vals := make([]int64, 20)
	go func() {
		s.Begin("ctor")
		defer s.End()
		col.Queue[int64](notation).MakeFromArray(vals)
	}()
	s.Run(1)
	if s.Deadlock() != "" {
		return true, "Queue.MakeFromArray with 20 values blocks on the capacity of the queue it is constructing (" + s.Deadlock() + ")"
	}
	return false, "Queue.MakeFromArray with 20 values returns"
}

// ---- exhaustive depth-first exploration of tiny programs (stateless) ----

// TinyPrograms are explored completely: every schedule at hook granularity.
var TinyPrograms = []QProgram{
	{Cap: 1, Producers: []int{1}, Consumers: []int{-1}, Closer: true},
	{Cap: 1, Producers: []int{2}, Consumers: []int{-1}, Closer: true},
	{Cap: 1, Producers: []int{1, 1}, Consumers: []int{2}},
	{Cap: 1, Producers: []int{1}, Consumers: []int{-1}, Closer: true, RemoveAll: true},
	{Cap: 2, Producers: []int{2}, Consumers: []int{1, 1}},
	{Cap: 1, Producers: []int{1}, Consumers: []int{-1, -1}, Closer: true},
	{Cap: 1, Producers: []int{2}, Consumers: []int{-1}, Closer: true, RemoveAll: true},
	{Cap: 2, Producers: []int{1, 1}, Consumers: []int{-1}, Closer: true},
	{Cap: 1, Producers: []int{1}, Consumers: []int{1}, Observers: 1},
	{Cap: 1, Producers: []int{1, 1}, Consumers: []int{-1}, Closer: true, RemoveAll: true},
}

// MediumPrograms are explored completely UNDER A PREEMPTION BOUND of two
// (iterative context bounding): every schedule in which at most two times a
// goroutine that could continue is switched out.
var MediumPrograms = []QProgram{
	{Cap: 1, Producers: []int{2, 2}, Consumers: []int{-1, -1}, Closer: true},
	{Cap: 2, Producers: []int{3}, Consumers: []int{-1, -1}, Closer: true},
	{Cap: 1, Producers: []int{2, 1}, Consumers: []int{-1}, Closer: true, RemoveAll: true},
	{Cap: 2, Producers: []int{2, 2}, Consumers: []int{2, 2}},
	{Cap: 1, Producers: []int{1, 1, 1}, Consumers: []int{-1}, Closer: true},
	{Cap: 3, Producers: []int{2, 2}, Consumers: []int{-1}, Closer: true, Observers: 1},
	{Cap: 1, Producers: []int{2}, Consumers: []int{-1, -1}, Closer: true, RemoveAll: true},
	{Cap: 2, Producers: []int{1, 2}, Consumers: []int{-1, -1, -1}, Closer: true},
}

// RunM1Bounded explores MediumPrograms[idx] with at most two preemptions.
func RunM1Bounded(c *core.Ctx, idx int, prop string) {
	runDFS(c, MediumPrograms[idx%len(MediumPrograms)], idx, prop, 2, core.Tiered(c.Tier, 6000, 600000), "bounded2")
}

// RunM1Exhaustive explores all schedules of TinyPrograms[idx] depth-first (up
// to a budget) and applies every oracle of C04/C05 to each.  prop selects what
// is reported.
func RunM1Exhaustive(c *core.Ctx, idx int, prop string) {
	runDFS(c, TinyPrograms[idx%len(TinyPrograms)], idx, prop, 0, core.Tiered(c.Tier, 4000, 400000), "exhaustive")
}

func runDFS(c *core.Ctx, p QProgram, idx int, prop string, maxPreempt, budget int, label string) {
	if m1Disabled(c) {
		return
	}
	var forced []int
	explored := 0
	complete := false
	for explored < budget {
		res := RunQProgramBounded(core.NewRng(1234, uint64(idx)), p, forced, true, maxPreempt) // a fixed stream: the program itself must be the same in every run
		explored++
		cs := map[string]any{"program": p.String(), "history": res.Hist.Strings()}
		if res.Sched.Unrepresentable() {
			c.Cover(res.Sched.AbandonReason())
		} else if !reportM1(c, res.Sched, res.Panic, cs, true) {
			return
		} else if prop == "C04" {
			for _, f := range res.Check() {
				if strings.HasPrefix(f.Sig, "inconclusive/") {
					c.Inconclusive(f.Msg)
					continue
				}
				cs["final"] = res.Final
				c.Violation(f.Sig, f.Msg, cs)
				return
			}
		} else {
			for _, o := range res.Hist.Ops {
				if o.Ret == 0 {
					c.Violation("m1/operation-never-returned", "operation "+o.String()+" never returned although the schedule ended", cs)
					return
				}
			}
			if len(res.Final) != 0 && p.Closer {
				c.Violation("m1/values-not-consumed", fmt.Sprintf("%v left in the queue after the program terminated", res.Final), cs)
				return
			}
		}
		c.Distinct(core.Mix(core.HashStr(p.String()), traceHash(res.Sched)))
		// backtrack: the last decision that still has an untried alternative
		ch := res.Sched.Choices
		k := len(ch) - 1
		for k >= 0 && ch[k][1]+1 >= ch[k][0] {
			k--
		}
		if k < 0 {
			complete = true
			break
		}
		forced = forced[:0]
		for i := 0; i < k; i++ {
			forced = append(forced, ch[i][1])
		}
		forced = append(forced, ch[k][1]+1)
	}
	c.CoverN("m1."+label+".schedules", explored)
	if complete {
		c.Cover("m1." + label + ".programs-explored-completely")
	} else {
		c.Cover("m1." + label + ".programs-cut-at-the-budget")
	}
	if c.WantSample("m1-" + label) {
		c.Sample("m1-"+label, map[string]any{"program": p.String(), "schedules_explored": explored, "complete": complete, "preemption_bound": maxPreempt})
	}
}

// TinyStreams: 3 shapes x lengths 0..2, fan-out 2, capacity 1.
func TinyStreams() []SProgram {
	var ps []SProgram
	for _, sh := range []string{"fork", "split", "splitjoin"} {
		for l := 0; l <= 2; l++ {
			ps = append(ps, SProgram{Shape: sh, Length: l, Fan: 2, Cap: 1})
		}
	}
	return ps
}

// RunC06Exhaustive: depth-first exploration of every schedule of a tiny stream program.
func RunC06Exhaustive(c *core.Ctx, idx int) {
	if m1Disabled(c) {
		return
	}
	ps := TinyStreams()
	p := ps[idx%len(ps)]
	budget := core.Tiered(c.Tier, 3000, 300000)
	var forced []int
	explored := 0
	complete := false
	for explored < budget {
		res := RunSProgramForced(core.NewRng(99, uint64(idx)), p, forced, true)
		explored++
		cs := map[string]any{"program": p.String(), "received": res.Outputs}
		if !reportM1(c, res.Sched, res.Panic, cs, true) {
			return
		}
		for _, f := range CheckStream(res) {
			c.Violation(f.Sig, f.Msg, cs)
			return
		}
		c.Distinct(core.Mix(core.HashStr(p.String()), traceHash(res.Sched)))
		ch := res.Sched.Choices
		k := len(ch) - 1
		for k >= 0 && ch[k][1]+1 >= ch[k][0] {
			k--
		}
		if k < 0 {
			complete = true
			break
		}
		forced = forced[:0]
		for i := 0; i < k; i++ {
			forced = append(forced, ch[i][1])
		}
		forced = append(forced, ch[k][1]+1)
	}
	c.CoverN("m1.exhaustive.schedules", explored)
	if complete {
		c.Cover("m1.exhaustive.programs-explored-completely")
	} else {
		c.Cover("m1.exhaustive.programs-cut-at-the-budget")
	}
	if c.WantSample("m1-exhaustive-stream") {
		c.Sample("m1-exhaustive-stream", map[string]any{"program": p.String(), "schedules_explored": explored, "complete": complete})
	}
}

// RunC05BusySource: a queue is constructed from another queue that is full and has a
// producer parked on it (real scheduler: the parked producer has to be really parked).
// What the constructor sees of the parked value is up to it, but it must return.
func RunC05BusySource(c *core.Ctx, idx int) {
	col.VerifSetHook(nil)
	Q := col.Queue[int64](notation)
	forms := []string{"class.MakeFromSequence", "module.Queue(sequence)"}
	form := forms[idx%len(forms)]
	capa := []uint{1, 2, 16, 17, 33}[(idx/len(forms))%5]
	src := Q.MakeWithCapacity(capa)
	for i := uint(0); i < capa; i++ {
		src.AddValue(int64(i))
	}
	parked := make(chan struct{})
	go func() { defer close(parked); src.AddValue(int64(capa)) }()
	for i := 0; i < 4000 && len(src.AsArray()) <= int(capa); i++ {
		time.Sleep(50 * time.Microsecond)
	}
	cs := map[string]any{"constructor": form, "source": fmt.Sprintf("a full queue of capacity %d with one producer parked on it", capa)}
	var q col.QueueLike[int64]
	done := make(chan any, 1)
	go func() {
		defer func() { done <- recover() }()
		if form == "class.MakeFromSequence" {
			q = Q.MakeFromSequence(src)
		} else {
			q = mod.Queue[int64](col.Sequential[int64](src))
		}
	}()
	release := func() {
		src.RemoveHead()
		<-parked
		src.RemoveAll()
	}
	select {
	case e := <-done:
		release()
		if e != nil {
			c.Violation("constructor/panicked", fmt.Sprintf("%s from a busy queue panicked: %v", form, e), cs)
			return
		}
	case <-time.After(3 * time.Second):
		if blocked, where := stableBlock("AddValue"); blocked {
			c.Violation("constructor/blocks-on-own-capacity", fmt.Sprintf("%s from a full queue with a parked producer does not return: %s", form, where), cs)
		} else {
			c.Inconclusive("a constructor call did not finish within 3 s and no stable blocked state was observed")
		}
		return
	}
	if n, cp := q.GetSize(), int(q.GetCapacity()); n > cp || (n != int(capa) && n != int(capa)+1) {
		c.Violation("constructor/wrong-contents", fmt.Sprintf("%s from a busy queue of %d (+1 pending) yields size %d, capacity %d", form, capa, n, cp), cs)
		return
	}
	c.Cover("constructors.busy-source")
	c.Distinct(core.Mix(0xb5, uint64(idx)))
}

// ReproBusySource: Queue.MakeFromSequence from a full queue with a parked producer.
func ReproBusySource() (bool, string) {
	col.VerifSetHook(nil)
	Q := col.Queue[int64](notation)
	src := Q.Make()
	capa := int(src.GetCapacity())
	for i := 0; i < capa; i++ {
		src.AddValue(int64(i))
	}
	go src.AddValue(int64(capa))
	for i := 0; i < 4000 && len(src.AsArray()) <= capa; i++ {
		time.Sleep(50 * time.Microsecond)
	}
	done := make(chan struct{})
	go func() { defer close(done); Q.MakeFromSequence(src) }()
	select {
	case <-done:
		return false, "Queue.MakeFromSequence from a full queue with a parked producer returns"
	case <-time.After(3 * time.Second):
		if blocked, where := stableBlock("AddValue"); blocked {
			return true, "Queue.MakeFromSequence from a full queue with a parked producer does not return: " + where
		}
		return false, "inconclusive: the constructor did not finish within 3 s and no stable blocked state was observed"
	}
}
