package conc

import (
	"fmt"
	"sort"
	"strings"
	"sync"
	"time"

	"github.com/anishathalye/porcupine"
)

// Op is one recorded client call: the call stamp is taken before invoking and
// the return stamp after the reply, from one logical clock.
type Op struct {
	Client string
	Kind   string // add, rem, close, removeall, size, empty, array, final
	Arg    string
	Call   int64
	Ret    int64 // 0 while open
	Val    string
	Ok     bool
	N      int
	Empty  bool
	Arr    []string
}

func (o *Op) String() string {
	r := "open"
	if o.Ret != 0 {
		r = fmt.Sprint(o.Ret)
	}
	switch o.Kind {
	case "add":
		return fmt.Sprintf("%s add(%s) [%d,%s]", o.Client, o.Arg, o.Call, r)
	case "rem":
		return fmt.Sprintf("%s rem->(%s,%v) [%d,%s]", o.Client, o.Val, o.Ok, o.Call, r)
	case "size":
		return fmt.Sprintf("%s size->%d [%d,%s]", o.Client, o.N, o.Call, r)
	case "empty":
		return fmt.Sprintf("%s empty->%v [%d,%s]", o.Client, o.Empty, o.Call, r)
	case "array", "final":
		return fmt.Sprintf("%s %s->%v [%d,%s]", o.Client, o.Kind, o.Arr, o.Call, r)
	}
	return fmt.Sprintf("%s %s [%d,%s]", o.Client, o.Kind, o.Call, r)
}

// History is a recorded history; tick supplies the clock.
type History struct {
	mu   sync.Mutex
	Ops  []*Op
	tick func() int64
}

func NewHistory(tick func() int64) *History { return &History{tick: tick} }

func (h *History) CallOp(client, kind, arg string) *Op {
	o := &Op{Client: client, Kind: kind, Arg: arg}
	h.mu.Lock()
	h.Ops = append(h.Ops, o)
	h.mu.Unlock()
	o.Call = h.tick()
	return o
}

func (h *History) RetOp(o *Op) { o.Ret = h.tick() }

func (h *History) Strings() []string {
	h.mu.Lock()
	defer h.mu.Unlock()
	out := make([]string, len(h.Ops))
	for i, o := range h.Ops {
		out[i] = o.String()
	}
	return out
}

// ---- FIFO linearizability with porcupine ----

type qInput struct {
	kind string // add, rem, close, discard, final
	val  string
}

type qOutput struct {
	val string
	ok  bool
	arr []string
}

type qState struct {
	vals   string // values joined by \x00
	closed bool
}

func push(s, v string) string {
	if s == "" {
		return v
	}
	return s + "\x00" + v
}

func head(s string) (string, string, bool) {
	if s == "" {
		return "", "", false
	}
	i := strings.IndexByte(s, 0)
	if i < 0 {
		return s, "", true
	}
	return s[:i], s[i+1:], true
}

var fifoModel = porcupine.Model{
	Init: func() interface{} { return qState{} },
	Step: func(state, input, output interface{}) (bool, interface{}) {
		st := state.(qState)
		in := input.(qInput)
		out := output.(qOutput)
		switch in.kind {
		case "add":
			st.vals = push(st.vals, in.val)
			return true, st
		case "close":
			st.closed = true
			return true, st
		case "rem":
			if !out.ok {
				return st.closed && st.vals == "", st
			}
			h, rest, ok := head(st.vals)
			if !ok || h != out.val {
				return false, st
			}
			st.vals = rest
			return true, st
		case "discard":
			h, rest, ok := head(st.vals)
			if !ok || h != in.val {
				return false, st
			}
			st.vals = rest
			return true, st
		case "final":
			return st.vals == strings.Join(out.arr, "\x00"), st
		}
		return false, st
	},
	Equal: func(a, b interface{}) bool { return a.(qState) == b.(qState) },
	DescribeOperation: func(input, output interface{}) string {
		return fmt.Sprintf("%v -> %v", input, output)
	},
}

// CheckResult of the offline checkers.
type Finding struct {
	Sig string
	Msg string
}

// CheckQueueHistory runs every offline checker of C04 on a complete history
// (all operations returned).  capacity is the queue's capacity; final is the
// quiescent array view taken after all goroutines ended.
func CheckQueueHistory(h *History, capacity int, final []string, finalSize int, finalEmpty bool) []Finding {
	var out []Finding
	add := func(sig, format string, a ...any) { out = append(out, Finding{sig, fmt.Sprintf(format, a...)}) }
	ops := h.Ops
	const inf = int64(1) << 60

	addOf := map[string]*Op{}
	delivered := map[string]*Op{}
	var removeAll *Op
	var adds, rems []*Op
	for _, o := range ops {
		switch o.Kind {
		case "add":
			if addOf[o.Arg] != nil {
				add("harness/duplicate-add", "value %s added twice by the program", o.Arg)
			}
			addOf[o.Arg] = o
			adds = append(adds, o)
		case "rem":
			rems = append(rems, o)
			if o.Ret != 0 && o.Ok {
				if delivered[o.Val] != nil {
					add("fifo/delivered-twice", "value %s was delivered twice (%s and %s)", o.Val, delivered[o.Val], o)
				}
				delivered[o.Val] = o
				if addOf[o.Val] == nil {
					// adds may be recorded later in the slice; checked below
				}
			}
		case "removeall":
			if removeAll == nil || o.Call < removeAll.Call {
				removeAll = o
			}
		}
	}
	for v, r := range delivered {
		if addOf[v] == nil {
			add("fifo/invented-value", "RemoveHead delivered %q which was never added (%s)", v, r)
		}
	}
	inFinal := map[string]bool{}
	for _, v := range final {
		if inFinal[v] {
			add("fifo/final-duplicate", "the final array view lists %s twice", v)
		}
		inFinal[v] = true
		if addOf[v] == nil {
			add("fifo/invented-value", "the final array view holds %q which was never added", v)
		}
		if delivered[v] != nil {
			add("fifo/delivered-and-still-queued", "value %s was delivered and is still in the final array view", v)
		}
	}
	// values neither delivered nor left: discarded by RemoveAll, or lost
	var discards []string
	for _, a := range adds {
		v := a.Arg
		if delivered[v] == nil && !inFinal[v] {
			if removeAll == nil {
				add("fifo/value-lost", "value %s was added (%s) but never delivered, never discarded by a RemoveAll and is not in the queue at the end", v, a)
			} else {
				discards = append(discards, v)
			}
		}
	}
	if len(out) > 0 {
		return out
	}

	// (1) linearizability
	var pops []porcupine.Operation
	cid := map[string]int{}
	client := func(name string) int {
		if _, ok := cid[name]; !ok {
			cid[name] = len(cid)
		}
		return cid[name]
	}
	maxT := int64(0)
	for _, o := range ops {
		ret := o.Ret
		if ret == 0 {
			ret = inf
		}
		if o.Ret > maxT {
			maxT = o.Ret
		}
		switch o.Kind {
		case "add":
			pops = append(pops, porcupine.Operation{ClientId: client(o.Client), Input: qInput{"add", o.Arg}, Call: o.Call, Output: qOutput{}, Return: ret})
		case "rem":
			pops = append(pops, porcupine.Operation{ClientId: client(o.Client), Input: qInput{"rem", ""}, Call: o.Call, Output: qOutput{val: o.Val, ok: o.Ok}, Return: ret})
		case "close":
			pops = append(pops, porcupine.Operation{ClientId: client(o.Client), Input: qInput{"close", ""}, Call: o.Call, Output: qOutput{}, Return: ret})
		}
	}
	if removeAll != nil {
		ret := removeAll.Ret
		if ret == 0 {
			ret = inf
		}
		for i, v := range discards {
			pops = append(pops, porcupine.Operation{ClientId: 1000 + i, Input: qInput{"discard", v}, Call: removeAll.Call, Output: qOutput{}, Return: ret})
		}
	}
	pops = append(pops, porcupine.Operation{ClientId: 999, Input: qInput{"final", ""}, Call: maxT + 1, Output: qOutput{arr: final}, Return: maxT + 2})
	switch porcupine.CheckOperationsTimeout(fifoModel, pops, 10*time.Second) {
	case porcupine.Illegal:
		add("fifo/not-linearizable", "no FIFO order consistent with real time explains the history (discarded by RemoveAll: %v; final: %v)", discards, final)
	case porcupine.Unknown:
		add("inconclusive/linearizability-timeout", "the linearizability search timed out")
	}

	// (2) back-pressure: #Add returned - #RemoveHead called <= capacity before the RemoveAll call
	type ev struct {
		t int64
		d int
	}
	var evs []ev
	for _, a := range adds {
		if a.Ret != 0 {
			evs = append(evs, ev{a.Ret, +1})
		}
	}
	for _, r := range rems {
		evs = append(evs, ev{r.Call, -1})
	}
	sort.Slice(evs, func(i, j int) bool { return evs[i].t < evs[j].t })
	cur := 0
	for _, e := range evs {
		if removeAll != nil && e.t >= removeAll.Call {
			break
		}
		cur += e.d
		if cur > capacity {
			add("backpressure/add-returned-while-full", "at time %d, %d additions had returned more than RemoveHead calls had been issued (capacity %d): AddValue returned while the queue was full", e.t, cur, capacity)
			break
		}
	}

	// (3) observers
	count := func(list []*Op, f func(*Op) bool) int {
		n := 0
		for _, o := range list {
			if f(o) {
				n++
			}
		}
		return n
	}
	for _, o := range ops {
		if o.Ret == 0 {
			continue
		}
		noReset := removeAll == nil || removeAll.Call > o.Ret
		upper := count(adds, func(a *Op) bool { return a.Call < o.Ret }) - count(rems, func(r *Op) bool { return r.Ret != 0 && r.Ok && r.Ret < o.Call })
		lower := count(adds, func(a *Op) bool { return a.Ret != 0 && a.Ret < o.Call }) - count(rems, func(r *Op) bool { return r.Call < o.Ret })
		if upper > capacity {
			upper = capacity
		}
		switch o.Kind {
		case "size":
			if o.N < 0 || o.N > capacity {
				add("observer/size-exceeds-capacity", "GetSize()=%d with capacity %d (%s)", o.N, capacity, o)
			} else if o.N > upper {
				add("observer/size-too-large", "GetSize()=%d but at most %d values can have been in the queue during the call (%s)", o.N, upper, o)
			} else if noReset && o.N < lower {
				add("observer/size-too-small", "GetSize()=%d but at least %d completed additions were unclaimed during the whole call (%s)", o.N, lower, o)
			}
		case "empty":
			if o.Empty && noReset && lower > 0 {
				add("observer/isempty-wrong", "IsEmpty()=true but at least %d completed additions were unclaimed during the whole call (%s)", lower, o)
			}
			if !o.Empty && upper <= 0 {
				add("observer/isempty-wrong", "IsEmpty()=false but no value can have been in the queue during the call (%s)", o)
			}
		case "array":
			seen := map[string]bool{}
			for i, v := range o.Arr {
				if seen[v] {
					add("observer/array-duplicate", "AsArray lists %s twice (%s)", v, o)
				}
				seen[v] = true
				a := addOf[v]
				if a == nil || a.Call > o.Ret {
					add("observer/array-invented", "AsArray shows %q before it was added (%s)", v, o)
					continue
				}
				if d := delivered[v]; d != nil && d.Ret < o.Call {
					add("observer/array-shows-removed", "AsArray shows %s which had already been delivered (%s) (%s)", v, d, o)
				}
				for _, w := range o.Arr[i+1:] {
					b := addOf[w]
					if b != nil && b.Ret != 0 && b.Ret < a.Call {
						add("observer/array-order", "AsArray lists %s before %s although %s was added strictly earlier (%s)", v, w, w, o)
					}
					if dv, dw := delivered[v], delivered[w]; dv != nil && dw != nil && dw.Ret < dv.Call {
						add("observer/array-order", "AsArray lists %s before %s although %s was delivered strictly earlier (%s)", v, w, w, o)
					}
				}
			}
			if noReset {
				for _, a := range adds {
					if a.Ret != 0 && a.Ret < o.Call && !seen[a.Arg] {
						d := delivered[a.Arg]
						excused := d != nil && d.Call < o.Ret // its removal had started before the observation ended
						for _, r := range rems {
							if r.Ret == 0 && r.Call < o.Ret {
								excused = true // an open removal may hold it
							}
						}
						if !excused {
							add("observer/array-misses-value", "AsArray does not show %s whose addition had completed and which nobody had started to remove (%s)", a.Arg, o)
						}
					}
				}
			}
		}
	}
	// quiescent agreement of the three observers
	if finalSize != len(final) || finalEmpty != (len(final) == 0) {
		add("observer/quiescent-disagreement", "at quiescence GetSize()=%d IsEmpty()=%v AsArray()=%v", finalSize, finalEmpty, final)
	}
	return out
}
