// Package conc holds the concurrency harness: the controlled randomized
// scheduler (M1), recorded client programs, the offline history checkers, the
// race-detector stress (M3) and the recorded stress on the real scheduler (M2).
package conc

import (
	"fmt"
	"runtime"
	"strconv"
	"strings"
	"sync"
	"time"

	col "github.com/craterdog/go-collection-framework/v4/collection"

	"verif/harness/internal/core"
)

// pseudo kinds used by the harness itself (the repository uses 1..6)
const (
	kStart     uint8 = 100 + iota // a client goroutine is about to begin
	kWaitGroup                    // Synchronized.Wait: enabled when the counter is 0
	kJoin                         // wait until a set of client goroutines has ended
	kGroupAdd                     // Synchronized.Add (always enabled)
)

func kindName(k uint8) string {
	switch k {
	case col.VerifLock:
		return "Lock"
	case col.VerifLockClose:
		return "LockClose"
	case col.VerifLockReset:
		return "LockReset"
	case col.VerifSend:
		return "Send"
	case col.VerifRecv:
		return "Recv"
	case col.VerifSpawn:
		return "Spawn"
	case col.VerifEnd:
		return "End"
	case kStart:
		return "Start"
	case kWaitGroup:
		return "Wait"
	case kJoin:
		return "Join"
	case kGroupAdd:
		return "GroupAdd"
	}
	return "?" + strconv.Itoa(int(k))
}

type tokenQueue interface{ VerifTokens() chan bool }

type gstate struct {
	id      int64
	role    string
	parked  bool
	ended   bool
	kind    uint8
	q       tokenQueue
	bound   chan bool // the channel this goroutine is committed to (it reached the operation when it could not proceed)
	release chan struct{}
	joinOn  []string // for kJoin: roles that must have ended
	group   *Group
}

// Sched is the controlled scheduler of one schedule.
type Sched struct {
	mu       sync.Mutex
	cond     *sync.Cond
	gs       map[int64]*gstate
	byRole   map[string]*gstate
	running  int
	pending  int // spawned helper goroutines not yet adopted
	helpers  int
	closed   map[chan bool]bool
	rng      *core.Rng
	pct      bool
	prio     map[string]int
	changes  map[int]bool
	step     int
	Trace    []string
	aborted  string
	Cov      map[string]int
	clock    int64
	stuck    bool
	deadlock string
	// unrepresentable: the schedule reached a state M1 cannot continue faithfully
	unrepresentable bool
	// unmodelled: a goroutine the scheduler does not control was seen inside
	// repository code when a verdict was about to be given
	unmodelled string
	// Forced, when non-nil, dictates the first len(Forced) decisions (index into
	// the role-sorted enabled set); afterwards index 0 is taken.  Choices
	// records, for every decision, how many goroutines were enabled and which
	// index was taken - the basis of the exhaustive depth-first exploration.
	notClosed      string
	tokenSrv       chan tokenReq
	tokenBroken    bool
	tokenClosed    bool
	tokenMu        sync.Mutex
	hookInsideLock bool
	// WaitEarly: the harness group's Wait returned before all helpers ended
	WaitEarly  string
	Forced     []int
	Systematic bool
	// MaxPreempt > 0 bounds the number of preemptions (switching away from a
	// goroutine that could continue) in systematic mode: iterative context bounding.
	MaxPreempt int
	preempts   int
	lastRole   string
	Choices    [][2]int
}

func goid() int64 {
	var buf [64]byte
	n := runtime.Stack(buf[:], false)
	// "goroutine 123 ["
	s := string(buf[:n])
	s = strings.TrimPrefix(s, "goroutine ")
	i := strings.IndexByte(s, ' ')
	id, _ := strconv.ParseInt(s[:i], 10, 64)
	return id
}

var (
	activeMu sync.Mutex
	active   *Sched
	hookOnce sync.Once
	// everKnown holds the id of every goroutine a scheduler of this process has
	// ever controlled (goroutine ids are not reused)
	everMu    sync.Mutex
	everKnown = map[int64]bool{}
)

func remember(id int64) {
	everMu.Lock()
	everKnown[id] = true
	everMu.Unlock()
}

func globalHook(kind uint8, q any) {
	activeMu.Lock()
	s := active
	activeMu.Unlock()
	if s != nil {
		s.hook(kind, q)
	}
}

// NewSched creates a scheduler and makes it the active one.
func NewSched(rng *core.Rng) *Sched {
	s := &Sched{gs: map[int64]*gstate{}, byRole: map[string]*gstate{}, closed: map[chan bool]bool{}, rng: rng,
		prio: map[string]int{}, changes: map[int]bool{}, Cov: map[string]int{}}
	s.cond = sync.NewCond(&s.mu)
	s.pct = rng.Bool()
	if s.pct {
		// PCT: d-1 priority change points somewhere in the first ~60 steps
		for i := rng.Intn(3); i > 0; i-- {
			s.changes[rng.Intn(60)] = true
		}
	}
	hookOnce.Do(func() { col.VerifSetHook(globalHook) })
	activeMu.Lock()
	active = s
	activeMu.Unlock()
	return s
}

// Deactivate detaches the scheduler from the hook.
func (s *Sched) Deactivate() {
	s.tokenMu.Lock()
	if s.tokenSrv != nil && !s.tokenBroken && !s.tokenClosed {
		close(s.tokenSrv)
	}
	s.tokenClosed = true
	s.tokenMu.Unlock()
	activeMu.Lock()
	if active == s {
		active = nil
	}
	activeMu.Unlock()
}

type tokenReq struct {
	q     tokenQueue
	reply chan chan bool
}

// tokens reads the queue's current token channel through a server goroutine
// with a watchdog: VerifTokens takes the queue's mutex, and if some goroutine is
// parked at a hook INSIDE a critical section (which the hook discipline
// forbids) the call would block for ever and wedge the whole worker.  On a
// timeout the schedule is marked stuck (inconclusive) instead.  Must be called
// WITHOUT s.mu held.
func (s *Sched) tokens(q tokenQueue) chan bool {
	s.tokenMu.Lock()
	defer s.tokenMu.Unlock()
	if s.tokenBroken || s.tokenClosed {
		return nil
	}
	if s.tokenSrv == nil {
		s.tokenSrv = make(chan tokenReq)
		go func(in chan tokenReq) {
			for r := range in {
				r.reply <- r.q.VerifTokens()
			}
		}(s.tokenSrv)
	}
	reply := make(chan chan bool, 1)
	s.tokenSrv <- tokenReq{q, reply}
	select {
	case ch := <-reply:
		return ch
	case <-time.After(2 * time.Second):
		s.tokenBroken = true
		s.mu.Lock()
		s.stuck = true
		s.hookInsideLock = true
		s.cond.Broadcast()
		s.mu.Unlock()
		return nil
	}
}

// Tick is the logical clock for the recorder (only one goroutine runs at a time).
func (s *Sched) Tick() int64 {
	s.mu.Lock()
	s.clock++
	t := s.clock
	s.mu.Unlock()
	return t
}

// park registers the pending operation of the calling goroutine and blocks
// until the scheduler releases it.
func (s *Sched) park(g *gstate, kind uint8, q tokenQueue) {
	g.kind, g.q, g.bound = kind, q, nil
	if q != nil && (kind == col.VerifSend || kind == col.VerifRecv) {
		s.mu.Unlock()
		ch := s.tokens(q) // under the queue's own mutex; nobody parked holds it
		s.mu.Lock()
		ready := false
		if kind == col.VerifSend {
			ready = len(ch) < cap(ch)
		} else {
			ready = len(ch) > 0 || s.closed[ch]
		}
		if !ready {
			// it would park inside the runtime on exactly this channel object
			g.bound = ch
			if kind == col.VerifSend {
				s.Cov["producer-committed-on-full-queue"]++
			} else {
				s.Cov["consumer-committed-on-empty-queue"]++
			}
		}
	}
	g.parked = true
	g.release = make(chan struct{})
	rel := g.release
	s.running--
	s.cond.Broadcast()
	s.mu.Unlock()
	<-rel
}

func (s *Sched) hook(kind uint8, q any) {
	id := goid()
	s.mu.Lock()
	if kind == col.VerifEnd {
		// a helper goroutine of the library reports that it is about to end
		if g := s.gs[id]; g != nil && !g.ended {
			g.ended = true
			s.running--
		} else if g == nil && s.pending > 0 {
			s.pending--
			s.running--
		}
		s.cond.Broadcast()
		s.mu.Unlock()
		return
	}
	g := s.gs[id]
	if g == nil {
		if s.pending == 0 {
			// not one of ours (e.g. a goroutine of an earlier, abandoned schedule)
			s.mu.Unlock()
			return
		}
		s.pending--
		s.helpers++
		g = &gstate{id: id, role: fmt.Sprintf("helper%d", s.helpers)}
		remember(id)
		s.gs[id] = g
		s.byRole[g.role] = g
	}
	if g.ended {
		s.mu.Unlock()
		return
	}
	tq, _ := q.(tokenQueue)
	s.park(g, kind, tq) // unlocks
}

// Begin is called first thing by a client goroutine.
func (s *Sched) Begin(role string) {
	id := goid()
	s.mu.Lock()
	g := &gstate{id: id, role: role}
	remember(id)
	s.gs[id] = g
	s.byRole[role] = g
	s.park(g, kStart, nil)
}

// End is called last thing by a client goroutine.
func (s *Sched) End() {
	id := goid()
	s.mu.Lock()
	if g := s.gs[id]; g != nil && !g.ended {
		g.ended = true
		s.running--
		s.cond.Broadcast()
	}
	s.mu.Unlock()
}

// Abort ends the schedule (a client recovered a panic).
func (s *Sched) Abort(why string) {
	s.mu.Lock()
	if s.aborted == "" {
		s.aborted = why
	}
	s.cond.Broadcast()
	s.mu.Unlock()
}

// JoinRoles parks the caller until the given roles have ended.
func (s *Sched) JoinRoles(roles ...string) {
	id := goid()
	s.mu.Lock()
	g := s.gs[id]
	g.joinOn = roles
	s.park(g, kJoin, nil)
}

// Group is the harness's Synchronized: Wait is a scheduler-visible operation
// and Done marks the end of a helper goroutine.
type Group struct {
	s *Sched
	n int
}

func (s *Sched) NewGroup() *Group { return &Group{s: s} }

// Add is itself a scheduling point (always enabled): a helper that registers
// with the group only after it has been started can then be overtaken by the
// caller's Wait.
func (g *Group) Add(delta int) {
	s := g.s
	id := goid()
	s.mu.Lock()
	st := s.gs[id]
	if st == nil && s.pending > 0 {
		s.pending--
		s.helpers++
		st = &gstate{id: id, role: fmt.Sprintf("helper%d", s.helpers)}
		s.gs[id] = st
		s.byRole[st.role] = st
	}
	if st == nil || st.ended {
		g.n += delta
		s.mu.Unlock()
		return
	}
	s.park(st, kGroupAdd, nil) // unlocks; returns when released
	s.mu.Lock()
	g.n += delta
	s.mu.Unlock()
}

func (g *Group) Done() {
	id := goid()
	s := g.s
	s.mu.Lock()
	g.n--
	if st := s.gs[id]; st != nil && !st.ended && strings.HasPrefix(st.role, "helper") {
		st.ended = true
		s.running--
	} else if st == nil && s.pending > 0 {
		// a helper that ended before it reached its first hook
		s.pending--
		s.running--
	}
	s.cond.Broadcast()
	s.mu.Unlock()
}

func (g *Group) Wait() {
	id := goid()
	s := g.s
	s.mu.Lock()
	st := s.gs[id]
	if st == nil {
		s.mu.Unlock()
		return
	}
	st.group = g
	s.park(st, kWaitGroup, nil)
	// Wait has returned: every helper goroutine spawned so far must have finished
	s.mu.Lock()
	unfinished := s.pending
	for _, o := range s.gs {
		if strings.HasPrefix(o.role, "helper") && !o.ended {
			unfinished++
		}
	}
	if unfinished > 0 && s.WaitEarly == "" {
		s.WaitEarly = fmt.Sprintf("the caller's Wait() returned while %d helper goroutine(s) started earlier had not finished (group counter %d)", unfinished, g.n)
	}
	s.mu.Unlock()
}

func (g *Group) Count() int {
	g.s.mu.Lock()
	defer g.s.mu.Unlock()
	return g.n
}

func (s *Sched) enabled(g *gstate) bool {
	switch g.kind {
	case col.VerifSend, col.VerifRecv:
		ch := g.bound
		if ch == nil {
			s.mu.Unlock()
			ch = s.tokens(g.q)
			s.mu.Lock()
		}
		if g.kind == col.VerifSend {
			return len(ch) < cap(ch) || s.closed[ch]
		}
		if len(ch) == 0 && s.closed[ch] {
			// The scheduler believes the channel was closed by a CloseQueue step.
			// Everybody is parked and the channel is empty, so a non-blocking
			// receive is a non-destructive test of that belief.
			select {
			case _, ok := <-ch:
				if ok {
					s.aborted = "harness: a token appeared on an empty channel while every goroutine was parked"
				}
			default:
				if s.notClosed == "" {
					s.notClosed = "CloseQueue has returned but the token channel of the queue is still open: a consumer blocked on the empty queue would never be woken"
				}
				return false
			}
		}
		return len(ch) > 0 || s.closed[ch]
	case kWaitGroup:
		return g.group.n == 0
	case kJoin:
		for _, r := range g.joinOn {
			if o := s.byRole[r]; o == nil || !o.ended {
				return false
			}
		}
		return true
	}
	return true
}

// Run schedules until every goroutine has ended, none is enabled (deadlock),
// a client aborted, or a released goroutine got stuck (inconclusive).
// expected is the number of client goroutines that will call Begin.
func (s *Sched) Run(expected int) {
	s.mu.Lock()
	defer s.mu.Unlock()
	s.running += expected
	// wake-up ticker so that a stuck goroutine cannot wedge the check
	stop := make(chan struct{})
	defer close(stop)
	go func() {
		t := time.NewTicker(50 * time.Millisecond)
		defer t.Stop()
		for {
			select {
			case <-stop:
				return
			case <-t.C:
				s.cond.Broadcast()
			}
		}
	}()
	for {
		deadline := time.Now().Add(3 * time.Second)
		for s.running > 0 && s.aborted == "" && !s.stuck {
			if time.Now().After(deadline) {
				s.stuck = true
				return
			}
			s.cond.Wait()
		}
		if s.aborted != "" || s.stuck {
			return
		}
		// everyone is parked or has ended
		var cands []*gstate
		alive := 0
		var roles []string
		for _, g := range s.gs {
			if !g.ended {
				alive++
				roles = append(roles, g.role)
			}
		}
		if alive == 0 && s.pending == 0 {
			return
		}
		sortStrings(roles)
		for _, r := range roles {
			g := s.byRole[r]
			if g.parked && s.enabled(g) {
				cands = append(cands, g)
			}
		}
		// A goroutine committed to a channel that has since been replaced and is
		// ready on that old channel cannot be represented: the real goroutine would
		// complete on the old channel, the code under test re-reads the field.
		for _, r := range roles {
			g := s.byRole[r]
			if g.parked && g.bound != nil {
				s.mu.Unlock()
				cur := s.tokens(g.q)
				s.mu.Lock()
				if cur != g.bound && s.enabled(g) {
					s.unrepresentable = true
					return
				}
			}
		}
		if len(cands) == 0 {
			// "nobody can proceed" is only a verdict when the scheduler controls
			// every goroutine that executes repository code in this schedule
			s.mu.Unlock()
			un := uncontrolledGoroutines()
			s.mu.Lock()
			// ... and when what it believes about the channels is what they are: a
			// consumer believed to wait on an open empty channel must not find it closed
			// (somebody the scheduler does not see closed it)
			for _, r := range roles {
				g := s.byRole[r]
				if un != "" || !g.parked || g.kind != col.VerifRecv {
					continue
				}
				ch := g.bound
				if ch == nil {
					s.mu.Unlock()
					ch = s.tokens(g.q)
					s.mu.Lock()
				}
				if ch == nil || s.closed[ch] {
					continue
				}
				select {
				case _, ok := <-ch:
					if ok {
						un = "a token appeared on a channel while every controlled goroutine was parked"
					} else {
						un = "a channel was closed by a step the scheduler did not see"
					}
				default:
				}
			}
			if un != "" {
				s.unrepresentable = true
				s.unmodelled = un
				return
			}
			var parts []string
			for _, r := range roles {
				g := s.byRole[r]
				what := kindName(g.kind)
				if g.bound != nil {
					s.mu.Unlock()
					cur := s.tokens(g.q)
					s.mu.Lock()
					if cur == g.bound {
						what += "(committed)"
					} else {
						what += "(committed to a channel that is no longer the queue's)"
					}
				}
				parts = append(parts, r+":"+what)
			}
			s.deadlock = strings.Join(parts, ", ")
			return
		}
		var pick *gstate
		if s.Systematic {
			// the goroutine that ran last comes first: taking it is "no preemption"
			last := -1
			for i, g := range cands {
				if g.role == s.lastRole {
					last = i
				}
			}
			if last > 0 {
				g := cands[last]
				copy(cands[1:last+1], cands[:last])
				cands[0] = g
				last = 0
			}
			allowed := len(cands)
			if s.MaxPreempt > 0 && last == 0 && s.preempts >= s.MaxPreempt {
				allowed = 1 // the preemption budget is used up: the running goroutine continues
			}
			k := 0
			if len(s.Choices) < len(s.Forced) {
				k = s.Forced[len(s.Choices)]
				if k >= allowed {
					k = allowed - 1
				}
			}
			if last == 0 && k > 0 {
				s.preempts++
			}
			s.Choices = append(s.Choices, [2]int{allowed, k})
			pick = cands[k]
		} else if s.pct {
			if s.changes[s.step] {
				// demote the currently highest goroutine
				best := cands[0]
				for _, g := range cands {
					if s.priority(g) > s.priority(best) {
						best = g
					}
				}
				s.prio[best.role] = -s.step - 1
			}
			pick = cands[0]
			for _, g := range cands {
				if s.priority(g) > s.priority(pick) {
					pick = g
				}
			}
		} else {
			pick = cands[s.rng.Intn(len(cands))]
		}
		s.step++
		s.lastRole = pick.role
		s.Trace = append(s.Trace, pick.role+":"+kindName(pick.kind))
		switch pick.kind {
		case col.VerifLockClose:
			s.mu.Unlock()
			ch := s.tokens(pick.q)
			s.mu.Lock()
			s.closed[ch] = true
			for _, g := range s.gs {
				if g.parked && !g.ended && g.kind == col.VerifRecv && g != pick {
					s.Cov["close-while-consumer-at-recv"]++
					break
				}
			}
		case col.VerifLockReset:
			for _, g := range s.gs {
				if g.parked && !g.ended && g.bound != nil {
					if g.kind == col.VerifSend {
						s.Cov["removeall-while-producer-committed"]++
					} else {
						s.Cov["removeall-while-consumer-committed"]++
					}
				}
			}
		case col.VerifSpawn:
			s.pending++
			s.running++ // the child runs from now on until its first hook
		}
		pick.parked = false
		s.running++
		close(pick.release)
	}
}

func (s *Sched) priority(g *gstate) int {
	p, ok := s.prio[g.role]
	if !ok {
		p = 1 + s.rng.Intn(1000)
		s.prio[g.role] = p
	}
	return p
}

// Outcome of a schedule.
func (s *Sched) Deadlock() string { return s.deadlock }
func (s *Sched) Aborted() string  { return s.aborted }
func (s *Sched) Stuck() bool      { return s.stuck }

// NotClosed is non-empty when a CloseQueue step did not close the channel.
func (s *Sched) NotClosed() string { return s.notClosed }

// Unrepresentable: a committed goroutine became ready on a replaced channel,
// or (Unmodelled() non-empty) a goroutine outside the scheduler's control was
// executing repository code when a verdict was due.
func (s *Sched) Unrepresentable() bool { return s.unrepresentable }
func (s *Sched) Unmodelled() string    { return s.unmodelled }

// AbandonReason labels an abandoned schedule for the evidence.
func (s *Sched) AbandonReason() string {
	if s.unmodelled != "" {
		return "m1.abandoned(goroutine-outside-the-scheduler's-control-in-repository-code)"
	}
	return "m1.abandoned(committed-goroutine-ready-on-a-replaced-channel)"
}

const repoPath = "github.com/craterdog/go-collection-framework/v4"

// uncontrolledGoroutines looks at a dump of all goroutines for one that has a
// frame of the repository on its stack, is not parked by a scheduler and has
// never been controlled by one (goroutines left over from earlier schedules of
// this process have been).  The library may legitimately be changed to use
// helper goroutines that do not announce themselves; the scheduler's model of
// "who can proceed" is then incomplete and its deadlock verdict must not be
// given.
func uncontrolledGoroutines() string {
	buf := make([]byte, 4<<20)
	buf = buf[:runtime.Stack(buf, true)]
	everMu.Lock()
	defer everMu.Unlock()
	for _, block := range strings.Split(string(buf), "\n\n") {
		if !strings.HasPrefix(block, "goroutine ") || !strings.Contains(block, repoPath) {
			continue
		}
		if strings.Contains(block, "conc.(*Sched).park") {
			continue
		}
		head := block[len("goroutine "):]
		sp := strings.IndexByte(head, ' ')
		if sp < 0 {
			continue
		}
		id, err := strconv.ParseInt(head[:sp], 10, 64)
		if err != nil || everKnown[id] {
			continue
		}
		line := head
		if nl := strings.IndexByte(line, '\n'); nl >= 0 {
			line = line[:nl]
		}
		fn := ""
		for _, l := range strings.Split(block, "\n") {
			if strings.Contains(l, repoPath) && !strings.HasPrefix(l, "\t") {
				fn = l
				break
			}
		}
		return "goroutine " + line + " in " + fn
	}
	return ""
}

func sortStrings(a []string) {
	for i := 1; i < len(a); i++ {
		for j := i; j > 0 && a[j] < a[j-1]; j-- {
			a[j], a[j-1] = a[j-1], a[j]
		}
	}
}
