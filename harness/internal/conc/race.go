package conc

import (
	"fmt"
	"runtime"
	"sort"
	"strings"
	"sync"
	"time"

	col "github.com/craterdog/go-collection-framework/v4/collection"

	"verif/harness/internal/core"
)

// ---- M3: race-detector stress.  No shared harness state while the workload
// runs: per-goroutine logs merged after the join, hook randomness from the
// clock only. ----

func m3hook() {
	col.VerifSetHook(m2jitter) // time.Now() based, no shared state
}

type consumerLog struct {
	got []string
}

// RunC04M3: many goroutines on one queue in the race build.
func RunC04M3(c *core.Ctx, idx int) {
	if realSchedulerDisabled(c) {
		return
	}
	m3hook()
	r := c.Rng
	if idx%4 == 0 {
		runtime.GOMAXPROCS([]int{2, 4, 8, 16}[(idx/4)%4])
	}
	capa := r.Range(1, 4)
	np, nc := r.Range(2, 8), r.Range(1, 8)
	per := r.Range(20, 200)
	removeAll := idx%3 == 2
	observers := r.Range(1, 3)
	q := col.Queue[string](notation).MakeWithCapacity(uint(capa))
	var wgP, wgAll sync.WaitGroup
	panics := make([]string, np+nc+observers+2)
	logs := make([]consumerLog, nc)
	sizeBad := make([]string, observers)
	run := func(slot int, body func()) {
		wgAll.Add(1)
		go func() {
			defer wgAll.Done()
			defer func() {
				if e := recover(); e != nil {
					panics[slot] = fmt.Sprint(e)
				}
			}()
			body()
		}()
	}
	for i := 0; i < np; i++ {
		i := i
		wgP.Add(1)
		run(i, func() {
			defer wgP.Done()
			for k := 0; k < per; k++ {
				q.AddValue(fmt.Sprintf("p%d.%05d", i, k))
			}
		})
	}
	for i := 0; i < nc; i++ {
		i := i
		bursty := i%2 == 1
		run(np+i, func() {
			for n := 0; ; n++ {
				if bursty && n%16 == 0 {
					time.Sleep(50 * time.Microsecond)
				}
				v, ok := q.RemoveHead()
				if !ok {
					return
				}
				logs[i].got = append(logs[i].got, v)
			}
		})
	}
	for i := 0; i < observers; i++ {
		i := i
		run(np+nc+i, func() {
			for k := 0; k < 200; k++ {
				if n := q.GetSize(); n < 0 || n > capa {
					sizeBad[i] = fmt.Sprintf("GetSize()=%d with capacity %d", n, capa)
				}
				q.IsEmpty()
				arr := q.AsArray()
				seen := map[string]bool{}
				for _, v := range arr {
					if seen[v] {
						sizeBad[i] = "AsArray lists " + v + " twice"
					}
					seen[v] = true
				}
				it := q.GetIterator()
				for it.HasNext() {
					it.GetNext()
				}
				if k%8 == 0 {
					_ = fmt.Sprint(q) // String()
				}
				runtime.Gosched()
			}
		})
	}
	if removeAll {
		run(np+nc+observers, func() {
			for k := 0; k < 5; k++ {
				time.Sleep(time.Duration(50+k*30) * time.Microsecond)
				q.RemoveAll()
			}
		})
	}
	run(np+nc+observers+1, func() {
		wgP.Wait()
		q.CloseQueue()
	})
	done := make(chan struct{})
	go func() { wgAll.Wait(); close(done) }()
	cs := map[string]any{"program": fmt.Sprintf("cap=%d producers=%d x %d consumers=%d observers=%d removeAll=%v", capa, np, per, nc, observers, removeAll)}
	select {
	case <-done:
	case <-time.After(30 * time.Second):
		timedOutRuns++
		if blocked, where := stableBlock("queue_"); blocked {
			c.Violation("m3/deadlock", "the stress program did not terminate: "+where, cs)
		} else {
			c.Inconclusive("M3: a stress run did not finish within 30 s and no stable blocked state was observed")
		}
		return
	}
	for _, p := range panics {
		if p != "" {
			c.Violation("m3/panic-in-valid-call", "a call that is valid on its own panicked: "+p, cs)
			return
		}
	}
	for _, b := range sizeBad {
		if b != "" {
			c.Violation("m3/observer", b, cs)
			return
		}
	}
	// goroutine-local sanity merged after the join
	seen := map[string]bool{}
	total := 0
	for i := range logs {
		last := map[string]string{}
		for _, v := range logs[i].got {
			if seen[v] {
				c.Violation("m3/delivered-twice", "value "+v+" was delivered twice", cs)
				return
			}
			seen[v] = true
			total++
			prod := v[:strings.IndexByte(v, '.')]
			if v <= last[prod] {
				c.Violation("m3/per-producer-order", fmt.Sprintf("consumer %d received %s after %s (values of one producer must come out in the order they were added)", i, v, last[prod]), cs)
				return
			}
			last[prod] = v
		}
	}
	left := q.AsArray()
	if !removeAll && (total != np*per || len(left) != 0) {
		c.Violation("m3/conservation", fmt.Sprintf("%d values added, %d delivered, %d left", np*per, total, len(left)), cs)
		return
	}
	c.Cover("m3.stress-runs")
	c.CoverN("m3.values-delivered", total)
	c.Distinct(core.Mix(0x33, uint64(idx), uint64(total), uint64(capa), uint64(np), uint64(nc)))
	if c.WantSample("m3-stress") {
		cs["delivered"] = total
		c.Sample("m3-stress", cs)
	}
}

// RunC06M3: streams on the real scheduler in the race build.
func RunC06M3(c *core.Ctx, idx int) {
	if realSchedulerDisabled(c) {
		return
	}
	m3hook()
	r := c.Rng
	shape := []string{"fork", "split", "splitjoin"}[idx%3]
	length := []int{0, 1, 2, 3, 5, 17, 100, 1000, 5000}[r.Intn(9)]
	fan := r.Range(2, 8)
	capa := r.Range(1, 4)
	if idx%5 == 0 {
		runtime.GOMAXPROCS([]int{2, 4, 8, 16}[(idx/5)%4])
	}
	Q := col.Queue[int](notation)
	input := Q.MakeWithCapacity(uint(capa))
	var group sync.WaitGroup
	var outs []col.QueueLike[int]
	switch shape {
	case "fork":
		outs = Q.Fork(&group, input, uint(fan)).AsArray()
	case "split":
		outs = Q.Split(&group, input, uint(fan)).AsArray()
	default:
		outs = []col.QueueLike[int]{Q.Join(&group, Q.Split(&group, input, uint(fan)))}
	}
	got := make([][]int, len(outs))
	after := make([]int, len(outs))
	var readers sync.WaitGroup
	for i := range outs {
		i := i
		mode := r.Intn(3)
		readers.Add(1)
		go func() {
			defer readers.Done()
			for n := 0; ; n++ {
				switch {
				case mode == 1 && n%32 == 0:
					time.Sleep(100 * time.Microsecond) // lagging
				case mode == 2 && n%7 == 0:
					runtime.Gosched() // bursty
				}
				v, ok := outs[i].RemoveHead()
				if !ok {
					break
				}
				got[i] = append(got[i], v)
			}
			after[i] = outs[i].GetSize()
		}()
	}
	go func() {
		for k := 0; k < length; k++ {
			input.AddValue(k)
		}
		input.CloseQueue()
	}()
	done := make(chan struct{})
	go func() { readers.Wait(); group.Wait(); close(done) }()
	cs := map[string]any{"program": fmt.Sprintf("%s length=%d fan-out=%d capacity=%d", shape, length, fan, capa)}
	select {
	case <-done:
	case <-time.After(30 * time.Second):
		timedOutRuns++
		if blocked, where := stableBlock("queue"); blocked {
			c.Violation("m3/stream-deadlock", "the stream did not terminate: "+where, cs)
		} else {
			c.Inconclusive("M3: a stream run did not finish within 30 s and no stable blocked state was observed")
		}
		return
	}
	for i := range outs {
		var want []int
		switch shape {
		case "fork", "splitjoin":
			for k := 0; k < length; k++ {
				want = append(want, k)
			}
		default:
			for k := i; k < length; k += fan {
				want = append(want, k)
			}
		}
		if fmt.Sprint(got[i]) != fmt.Sprint(want) {
			g := fmt.Sprint(got[i])
			if len(g) > 300 {
				g = g[:300] + "…"
			}
			c.Violation("stream/"+shape+"/wrong-values", fmt.Sprintf("output %d received %s (%d values), expected %d values in input order", i, g, len(got[i]), len(want)), cs)
			return
		}
		if after[i] != 0 {
			c.Violation("stream/"+shape+"/delivery-after-closure", fmt.Sprintf("output %d holds %d values after it reported closure", i, after[i]), cs)
			return
		}
	}
	c.Cover("m3.stream-runs." + shape)
	c.Distinct(core.Mix(core.HashStr(cs["program"].(string))))
	if c.WantSample("m3-stream") {
		c.Sample("m3-stream", cs)
	}
}

// sortedKeys is a helper for deterministic transcripts.
func sortedKeys(m map[string]int) []string {
	var ks []string
	for k := range m {
		ks = append(ks, k)
	}
	sort.Strings(ks)
	return ks
}
