package core

import (
	"bufio"
	"encoding/binary"
	"encoding/json"
	"fmt"
	"io"
	"os"
	"os/exec"
	"path/filepath"
	"regexp"
	"runtime"
	"sort"
	"strconv"
	"strings"
	"sync"
	"syscall"
	"time"
)

const RepoPrefix = "github.com/craterdog/go-collection-framework/v4"

// Agg is the aggregate of all worker reports of one check run.
type Agg struct {
	Prop         *Property
	Tier         string
	Seed         uint64
	Evaluations  map[string]int
	Cov          map[string]int
	Samples      map[string][]any
	Inconclusive map[string]int
	Violations   []Violation
	Distinct     int
	RaceBlocks   int
	RaceDistinct int
	Extra        map[string]any
}

func (a *Agg) AddInconclusive(reason string) { a.Inconclusive[reason]++ }

// Root returns /verif (the directory above .build).
func Root() string {
	if r := os.Getenv("VERIF_ROOT"); r != "" {
		return r
	}
	exe, err := os.Executable()
	if err == nil {
		d := filepath.Dir(filepath.Dir(exe))
		if _, err := os.Stat(filepath.Join(d, "properties.jsonl")); err == nil {
			return d
		}
	}
	return "/verif"
}

type wproc struct {
	group    string
	shard    int
	gen      int
	cmd      *exec.Cmd
	stderr   string
	mu       sync.Mutex
	inflight int
	since    time.Time
	sawDone  bool
	exited   bool
	exitErr  error
	noticed  bool
	cpu0     float64
	notice   time.Time
	finished bool
}

// procCPU returns the CPU seconds consumed by the process and by its
// descendants (a worker may delegate its work to child processes: the Go
// fuzzer runs as `go test` with worker processes of its own).
func procCPU(pid int) float64 {
	type st struct {
		ppid int
		cpu  float64
	}
	procs := map[int]st{}
	ents, _ := os.ReadDir("/proc")
	for _, e := range ents {
		id, err := strconv.Atoi(e.Name())
		if err != nil {
			continue
		}
		b, err := os.ReadFile(fmt.Sprintf("/proc/%d/stat", id))
		if err != nil {
			continue
		}
		s := string(b)
		i := strings.LastIndex(s, ")")
		if i < 0 {
			continue
		}
		f := strings.Fields(s[i+1:])
		if len(f) < 15 {
			continue
		}
		ppid, _ := strconv.Atoi(f[1])
		ut, _ := strconv.ParseFloat(f[11], 64)
		stime, _ := strconv.ParseFloat(f[12], 64)
		cut, _ := strconv.ParseFloat(f[13], 64) // reaped children
		cst, _ := strconv.ParseFloat(f[14], 64)
		procs[id] = st{ppid, (ut + stime + cut + cst) / 100.0}
	}
	total := 0.0
	for id, p := range procs {
		for a, hops := id, 0; hops < 32; hops++ {
			if a == pid {
				total += p.cpu
				break
			}
			q, ok := procs[a]
			if !ok || q.ppid == a || q.ppid <= 1 {
				break
			}
			a = q.ppid
		}
	}
	return total
}

type pool struct {
	failures int // crashes + hangs so far; restarts stop after maxFailures
	skipped  int
	agg      *Agg
	prop     *Property
	group    string
	cl       *caseList
	dir      string
	nshards  int
	race     bool
	exe      string
}

func (p *pool) start(shard, gen, startK int) (*wproc, error) {
	w := &wproc{group: p.group, shard: shard, gen: gen, inflight: -1, since: time.Now()}
	w.stderr = filepath.Join(p.dir, fmt.Sprintf("stderr.%s.%d.%d", p.group, shard, gen))
	cmd := exec.Command(p.exe, "worker", p.prop.ID, p.agg.Tier, strconv.FormatUint(p.agg.Seed, 10), p.group,
		strconv.Itoa(shard), strconv.Itoa(p.nshards), p.dir, strconv.Itoa(gen), strconv.Itoa(startK))
	ef, err := os.Create(w.stderr)
	if err != nil {
		return nil, err
	}
	cmd.Stderr = ef
	cmd.Env = append(os.Environ(), "GOTRACEBACK=all")
	cmd.SysProcAttr = &syscall.SysProcAttr{Pdeathsig: syscall.SIGKILL}
	if p.race {
		cmd.Env = append(cmd.Env, "GORACE=halt_on_error=0 history_size=3 log_path="+filepath.Join(p.dir, fmt.Sprintf("race.%d.%d", shard, gen)))
	}
	stdout, err := cmd.StdoutPipe()
	if err != nil {
		return nil, err
	}
	if err := cmd.Start(); err != nil {
		return nil, err
	}
	ef.Close()
	w.cmd = cmd
	go func() {
		rd := bufio.NewReader(stdout)
		for {
			line, err := rd.ReadString('\n')
			if len(line) > 0 {
				line = strings.TrimSpace(line)
				w.mu.Lock()
				if line == "DONE" {
					w.sawDone = true
				} else if strings.HasPrefix(line, "B ") {
					k, _ := strconv.Atoi(line[2:])
					w.inflight = k
					w.since = time.Now()
					w.noticed = false
				}
				w.mu.Unlock()
			}
			if err != nil {
				break
			}
		}
		e := cmd.Wait()
		w.mu.Lock()
		w.exited = true
		w.exitErr = e
		w.mu.Unlock()
	}()
	return w, nil
}

func tailFile(path string, max int) string {
	b, err := os.ReadFile(path)
	if err != nil {
		return ""
	}
	if len(b) > max {
		b = b[:max]
	}
	return string(b)
}

var fatalRe = regexp.MustCompile(`(?m)^(fatal error: .*|panic: .*|runtime: goroutine stack exceeds.*)$`)

func classifyCrash(stderr string) string {
	m := fatalRe.FindString(stderr)
	if m == "" {
		return "unknown-crash"
	}
	if strings.HasPrefix(m, "runtime: goroutine stack exceeds") {
		return "fatal error: stack overflow"
	}
	if len(m) > 100 {
		m = m[:100]
	}
	return m
}

// dumpShowsRepoBlock: every goroutine that has a repo frame is parked in a
// channel or mutex wait, and there is at least one.
func dumpShowsRepoBlock(dump string) (bool, string) {
	blocks := strings.Split(dump, "\n\n")
	n := 0
	var where []string
	for _, b := range blocks {
		if !strings.HasPrefix(strings.TrimSpace(b), "goroutine ") {
			continue
		}
		if !strings.Contains(b, RepoPrefix) {
			continue
		}
		head := strings.SplitN(strings.TrimSpace(b), "\n", 2)[0]
		if strings.Contains(head, "[chan send") || strings.Contains(head, "[chan receive") ||
			strings.Contains(head, "[sync.Mutex.Lock") || strings.Contains(head, "[sync.RWMutex") || strings.Contains(head, "[semacquire") ||
			strings.Contains(head, "[select") || strings.Contains(head, "[sync.WaitGroup.Wait") {
			n++
			where = append(where, head)
			continue
		}
		return false, head
	}
	return n > 0, strings.Join(where, "; ")
}

func (p *pool) run() error {
	procs := make([]*wproc, p.nshards)
	for s := 0; s < p.nshards; s++ {
		w, err := p.start(s, 0, 0)
		if err != nil {
			return err
		}
		procs[s] = w
	}
	const wallBlock = 120 * time.Second
	for {
		active := 0
		for s, w := range procs {
			if w == nil || w.finished {
				continue
			}
			active++
			w.mu.Lock()
			exited, sawDone, inflight, since := w.exited, w.sawDone, w.inflight, w.since
			noticed := w.noticed
			w.mu.Unlock()
			if exited {
				if sawDone {
					// (the race-detector build exits with status 66 when it reported races;
					// the reports themselves are read from the log files)
					w.finished = true
					continue
				}
				// crash
				stderr := tailFile(w.stderr, 12000)
				if inflight < 0 {
					return fmt.Errorf("worker %s/%d died before its first case: %v\n%s", p.group, s, w.exitErr, stderr)
				}
				e, idx := p.cl.locate(inflight)
				cls := classifyCrash(stderr)
				p.agg.Violations = append(p.agg.Violations, Violation{
					Property: p.prop.ID, Engine: e.Name, Index: idx, Seed: p.agg.Seed, Tier: p.agg.Tier,
					Signature: "crash/" + e.Name + "/" + cls,
					Message:   fmt.Sprintf("the worker process died while executing this case (%v): %s\n--- stderr (head) ---\n%s", w.exitErr, cls, stderr),
				})
				p.agg.Evaluations[e.Name]++
				w.finished = true
				nw, err := p.restart(w, inflight+1)
				if err != nil {
					return err
				}
				procs[s] = nw
				continue
			}
			if inflight < 0 || time.Since(since) < 3*time.Second {
				continue
			}
			pid := w.cmd.Process.Pid
			cpu := procCPU(pid)
			if !noticed {
				w.mu.Lock()
				w.noticed, w.cpu0, w.notice = true, cpu, time.Now()
				w.mu.Unlock()
				continue
			}
			e, idx := p.cl.locate(inflight)
			limit := e.CPULimit
			if limit <= 0 {
				limit = 10
			}
			consumed := cpu - w.cpu0
			blocked := time.Since(w.notice) > wallBlock && consumed < 2.0
			if consumed <= limit && !blocked {
				continue
			}
			// stop it with a goroutine dump
			w.cmd.Process.Signal(syscall.SIGQUIT)
			deadline := time.Now().Add(10 * time.Second)
			for time.Now().Before(deadline) {
				w.mu.Lock()
				ex := w.exited
				w.mu.Unlock()
				if ex {
					break
				}
				time.Sleep(50 * time.Millisecond)
			}
			w.cmd.Process.Kill()
			dump := tailFile(w.stderr, 30000)
			if consumed > limit {
				p.agg.Violations = append(p.agg.Violations, Violation{
					Property: p.prop.ID, Engine: e.Name, Index: idx, Seed: p.agg.Seed, Tier: p.agg.Tier,
					Signature: "no-return/" + e.Name,
					Message: fmt.Sprintf("the case consumed %.1f CPU-seconds (bound %.0f) without finishing: the call does not return\n--- goroutine dump (head) ---\n%s",
						consumed, limit, dump),
				})
			} else {
				ok, where := dumpShowsRepoBlock(dump)
				if ok && e.BlockIsViolation {
					p.agg.Violations = append(p.agg.Violations, Violation{
						Property: p.prop.ID, Engine: e.Name, Index: idx, Seed: p.agg.Seed, Tier: p.agg.Tier,
						Signature: "blocked/" + e.Name,
						Message:   fmt.Sprintf("no progress and no CPU for %v; every goroutine with a repository frame is parked (%s)\n--- goroutine dump (head) ---\n%s", wallBlock, where, dump),
					})
				} else {
					p.agg.AddInconclusive(fmt.Sprintf("worker stalled without CPU on %s[%d] (watchdog, not a verdict)", e.Name, idx))
				}
			}
			p.agg.Evaluations[e.Name]++
			w.finished = true
			nw, err := p.restart(w, inflight+1)
			if err != nil {
				return err
			}
			procs[s] = nw
		}
		if active == 0 {
			return nil
		}
		time.Sleep(100 * time.Millisecond)
	}
}

const maxFailures = 6

func (p *pool) restart(old *wproc, startK int) (*wproc, error) {
	// anything left for this shard?
	left := 0
	for k := startK; k < p.cl.total; k++ {
		if k%p.nshards == old.shard {
			left++
		}
	}
	if left == 0 {
		return nil, nil
	}
	p.failures++
	if p.failures > maxFailures {
		// the tree crashes/hangs again and again: report what we have instead of
		// paying the watchdog delay for every remaining case
		p.skipped += left
		p.agg.Inconclusive[fmt.Sprintf("after %d crashing/hanging cases the rest of a shard was not executed", maxFailures)] += left
		return nil, nil
	}
	return p.start(old.shard, old.gen+1, startK)
}

// ---- race log parsing ----

type raceBlock struct {
	text   string
	stacks [][]string // function names per stack section
}

var frameRe = regexp.MustCompile(`^  ([^\s(][^\n]*?)\(\)?$`)

func parseRaceLogs(dir string) []raceBlock {
	files, _ := filepath.Glob(filepath.Join(dir, "race.*"))
	var out []raceBlock
	for _, f := range files {
		b, err := os.ReadFile(f)
		if err != nil {
			continue
		}
		parts := strings.Split(string(b), "WARNING: DATA RACE")
		for _, part := range parts[1:] {
			if i := strings.Index(part, "=================="); i >= 0 {
				part = part[:i]
			}
			rb := raceBlock{text: "WARNING: DATA RACE" + part}
			var cur []string
			inStack := false
			for _, line := range strings.Split(part, "\n") {
				t := strings.TrimSpace(line)
				switch {
				case strings.HasPrefix(t, "Write at") || strings.HasPrefix(t, "Read at") ||
					strings.HasPrefix(t, "Previous write at") || strings.HasPrefix(t, "Previous read at") ||
					strings.HasPrefix(t, "Atomic") || strings.HasPrefix(t, "Previous atomic"):
					if cur != nil {
						rb.stacks = append(rb.stacks, cur)
					}
					cur = []string{}
					inStack = true
				case strings.HasPrefix(t, "Goroutine "):
					if cur != nil {
						rb.stacks = append(rb.stacks, cur)
						cur = nil
					}
					inStack = false
				case inStack && strings.HasPrefix(line, "  ") && !strings.HasPrefix(line, "      ") && t != "":
					// function line: "  pkg.Func()" ; file line is indented deeper
					name := t
					if i := strings.Index(name, "("); i >= 0 && strings.HasSuffix(name, ")") {
						name = name[:strings.LastIndex(name, "(")]
					}
					cur = append(cur, name)
				}
			}
			if cur != nil {
				rb.stacks = append(rb.stacks, cur)
			}
			out = append(out, rb)
		}
	}
	return out
}

func isRuntimeFrame(fn string) bool {
	for _, p := range []string{"runtime.", "sync.", "sync/atomic.", "reflect.", "internal/", "strings.", "fmt.", "strconv."} {
		if strings.HasPrefix(fn, p) {
			return true
		}
	}
	return false
}

// innermostUser returns the innermost non-runtime frame of a stack.
func innermostUser(stack []string) string {
	for _, fn := range stack {
		if !isRuntimeFrame(fn) {
			return fn
		}
	}
	if len(stack) > 0 {
		return stack[0]
	}
	return "?"
}

var genericRe = regexp.MustCompile(`\[[^\]]*\]`)

func stripGeneric(fn string) string {
	// remove balanced [...] type argument lists, also nested ones
	for {
		i := strings.Index(fn, "[")
		if i < 0 {
			break
		}
		depth, j := 0, i
		for ; j < len(fn); j++ {
			if fn[j] == '[' {
				depth++
			} else if fn[j] == ']' {
				depth--
				if depth == 0 {
					break
				}
			}
		}
		if j >= len(fn) {
			break
		}
		fn = fn[:i] + fn[j+1:]
	}
	fn = genericRe.ReplaceAllString(fn, "")
	fn = strings.ReplaceAll(fn, "(*", "")
	fn = strings.ReplaceAll(fn, ")", "")
	fn = strings.TrimPrefix(fn, RepoPrefix+"/")
	return fn
}

func (a *Agg) absorbRaces(dir string) {
	blocks := parseRaceLogs(dir)
	a.RaceBlocks += len(blocks)
	seen := map[string]bool{}
	for _, rb := range blocks {
		if len(rb.stacks) < 2 {
			continue
		}
		fa, fb := innermostUser(rb.stacks[0]), innermostUser(rb.stacks[1])
		repoA := strings.HasPrefix(fa, RepoPrefix)
		repoB := strings.HasPrefix(fb, RepoPrefix)
		ka, kb := stripGeneric(fa), stripGeneric(fb)
		if ka > kb {
			ka, kb = kb, ka
		}
		key := ka + "|" + kb
		if seen[key] {
			continue
		}
		seen[key] = true
		a.RaceDistinct++
		if repoA || repoB {
			a.Violations = append(a.Violations, Violation{
				Property: a.Prop.ID, Engine: "race-detector", Index: -1, Seed: a.Seed, Tier: a.Tier,
				Signature: "race/" + key,
				Message:   rb.text,
			})
		} else {
			a.AddInconclusive("race report with harness frames only (harness bug?): " + key)
		}
	}
}

// ---- aggregation ----

func (a *Agg) absorbDir(dir string) {
	reports, _ := filepath.Glob(filepath.Join(dir, "report.*.json"))
	for _, f := range reports {
		b, err := os.ReadFile(f)
		if err != nil {
			continue
		}
		var r Report
		if json.Unmarshal(b, &r) != nil {
			continue
		}
		for k, v := range r.Evaluations {
			a.Evaluations[k] += v
		}
		for k, v := range r.Cov {
			a.Cov[k] += v
		}
		for k, v := range r.Inconclusive {
			a.Inconclusive[k] += v
		}
		for k, v := range r.Samples {
			for _, s := range v {
				if len(a.Samples[k]) < maxSamplesPerKind {
					a.Samples[k] = append(a.Samples[k], s)
				}
			}
		}
	}
	vios, _ := filepath.Glob(filepath.Join(dir, "violations.*.jsonl"))
	sort.Strings(vios)
	for _, f := range vios {
		fh, err := os.Open(f)
		if err != nil {
			continue
		}
		rd := bufio.NewReaderSize(fh, 1<<20)
		for {
			line, err := rd.ReadBytes('\n')
			if len(line) > 1 {
				var v Violation
				if json.Unmarshal(line, &v) == nil {
					a.Violations = append(a.Violations, v)
				}
			}
			if err != nil {
				break
			}
		}
		fh.Close()
	}
	set := map[uint64]struct{}{}
	dfs, _ := filepath.Glob(filepath.Join(dir, "distinct.*.bin"))
	for _, f := range dfs {
		fh, err := os.Open(f)
		if err != nil {
			continue
		}
		rd := bufio.NewReaderSize(fh, 1<<20)
		var buf [8]byte
		for {
			if _, err := io.ReadFull(rd, buf[:]); err != nil {
				break
			}
			set[binary.LittleEndian.Uint64(buf[:])] = struct{}{}
		}
		fh.Close()
	}
	a.Distinct += len(set)
}

// RunCheck is the orchestrator.  Returns the process exit code.
func RunCheck(id, tier string, seed uint64) int {
	t0 := time.Now()
	prop := Lookup(id)
	if prop == nil {
		fmt.Fprintln(os.Stderr, "unknown property", id)
		return 2
	}
	root := Root()
	work := filepath.Join(root, ".build", "work", fmt.Sprintf("%s.%d", id, os.Getpid()))
	os.RemoveAll(work)
	cleanStaleWork(filepath.Join(root, ".build", "work"))
	if err := os.MkdirAll(work, 0o755); err != nil {
		fmt.Fprintln(os.Stderr, err)
		return 2
	}
	defer os.RemoveAll(work)

	agg := &Agg{Prop: prop, Tier: tier, Seed: seed, Evaluations: map[string]int{}, Cov: map[string]int{},
		Samples: map[string][]any{}, Inconclusive: map[string]int{}, Extra: map[string]any{}}

	findings, err := LoadFindings(filepath.Join(root, "KNOWN_FINDINGS.json"))
	if err != nil {
		fmt.Fprintln(os.Stderr, "KNOWN_FINDINGS.json:", err)
		return 2
	}

	exe, _ := os.Executable()
	raceExe := filepath.Join(filepath.Dir(exe), "vcheck-race")

	// 1. reproducers of listed findings
	knownOpen := 0
	fixedChecked := 0
	for _, f := range findings {
		if f.Property != id {
			continue
		}
		fails, detail := runRepro(exe, raceExe, prop, f.Repro)
		switch f.Status {
		case "open":
			if fails {
				fmt.Printf("KNOWN-FINDING: property=%s %s [%s]\n", id, f.What, f.ID)
				knownOpen++
			} else {
				fmt.Printf("NOTE: listed open finding %s of %s did not reproduce (%s)\n", f.ID, id, detail)
			}
		case "fixed":
			fixedChecked++
			if i := strings.Index(detail, "inconclusive:"); !fails && i >= 0 {
				agg.AddInconclusive("reproducer of " + f.ID + ": " + strings.TrimSpace(firstLines(detail[i+len("inconclusive:"):], 1)))
			}
			if fails {
				agg.Violations = append(agg.Violations, Violation{Property: id, Engine: "repro:" + f.Repro, Index: 0, Seed: seed, Tier: tier,
					Signature: "regression/" + f.ID, Message: "a defect recorded as fixed (" + f.Commit + ") is back: " + f.What + "\n" + detail})
			}
		}
	}

	// 2. the engines, group by group
	groups := []string{}
	seenG := map[string]bool{}
	for _, e := range prop.Engines {
		g := groupOf(e)
		if !seenG[g] {
			seenG[g] = true
			groups = append(groups, g)
		}
	}
	ncpu := runtime.NumCPU()
	if v := os.Getenv("VERIF_WORKERS"); v != "" {
		if n, err := strconv.Atoi(v); err == nil && n > 0 {
			ncpu = n
		}
	}
	exhaustive := len(prop.Engines) > 0
	anyExh := false
	for _, e := range prop.Engines {
		if e.Exhaustive {
			anyExh = true
		} else {
			exhaustive = false
		}
	}
	for _, g := range groups {
		engines := selectEngines(prop, g)
		cl := newCaseList(engines, tier)
		if cl.total == 0 {
			continue
		}
		n := ncpu
		if engines[0].MaxWorkers > 0 && engines[0].MaxWorkers < n {
			n = engines[0].MaxWorkers
		}
		if cl.total < n {
			n = cl.total
		}
		p := &pool{agg: agg, prop: prop, group: g, cl: cl, dir: work, nshards: n, race: engines[0].Race, exe: exe}
		if p.race {
			if _, err := os.Stat(raceExe); err != nil {
				fmt.Fprintln(os.Stderr, "race build of the harness is missing:", raceExe)
				return 2
			}
			p.exe = raceExe
		}
		if err := p.run(); err != nil {
			fmt.Fprintln(os.Stderr, "harness failure:", err)
			return 2
		}
	}
	agg.absorbDir(work)
	agg.absorbRaces(work)
	if prop.Finish != nil {
		prop.Finish(agg)
	}

	// 3. classify violations against the open findings
	var fresh []Violation
	suppressed := map[string]int{}
	for _, v := range agg.Violations {
		if f := MatchOpen(findings, id, v.Signature); f != nil {
			suppressed[f.ID]++
			continue
		}
		fresh = append(fresh, v)
	}

	// 4. replays + output
	os.MkdirAll(filepath.Join(root, "replays"), 0o755)
	bySig := map[string][]Violation{}
	var sigs []string
	for _, v := range fresh {
		if _, ok := bySig[v.Signature]; !ok {
			sigs = append(sigs, v.Signature)
		}
		bySig[v.Signature] = append(bySig[v.Signature], v)
	}
	sort.Strings(sigs)
	for i, s := range sigs {
		v := bySig[s][0]
		// the witness is the SMALLEST occurrence (shortest serialized case, then the
		// lowest index): with thousands of generated cases the shortest failing
		// history stands in for a shrinker
		size := func(x Violation) int {
			b, _ := json.Marshal(x.Case)
			return len(b)
		}
		best := size(v)
		for _, o := range bySig[s] {
			if n := size(o); n < best || (n == best && o.Index < v.Index) {
				v, best = o, n
			}
		}
		name := fmt.Sprintf("%s-%s-%d-s%d-%x.json", id, sanitize(v.Engine), v.Index, seed, HashStr(s)&0xffff)
		path := filepath.Join(root, "replays", name)
		b, _ := json.MarshalIndent(v, "", " ")
		os.WriteFile(path, b, 0o644)
		if i < 25 {
			msg := v.Message
			if len(msg) > 600 {
				msg = msg[:600] + "…"
			}
			fmt.Printf("VIOLATION property=%s replay=%s\n    signature=%s occurrences=%d\n    %s\n", id, path, s, len(bySig[s]), strings.ReplaceAll(msg, "\n", "\n    "))
		}
	}
	var incKeys []string
	for k := range agg.Inconclusive {
		incKeys = append(incKeys, k)
	}
	sort.Strings(incKeys)
	for _, k := range incKeys {
		fmt.Printf("INCONCLUSIVE property=%s reason=%s (x%d)\n", id, k, agg.Inconclusive[k])
	}

	// 5. evidence
	total := 0
	for _, v := range agg.Evaluations {
		total += v
	}
	samples := []any{}
	var kinds []string
	for k := range agg.Samples {
		kinds = append(kinds, k)
	}
	sort.Strings(kinds)
	for _, k := range kinds {
		for _, s := range agg.Samples[k] {
			samples = append(samples, map[string]any{"kind": k, "case": s})
		}
	}
	cov := map[string]any{
		"evaluations":                total,
		"distinct_nontrivial":        agg.Distinct,
		"rule":                       prop.Rule,
		"samples":                    samples,
		"per_engine":                 agg.Evaluations,
		"observed":                   agg.Cov,
		"inconclusive":               agg.Inconclusive,
		"known_findings_open":        knownOpen,
		"fixed_findings_rechecked":   fixedChecked,
		"suppressed_by_open_finding": suppressed,
		"violation_signatures":       sigs,
	}
	if anyExh {
		var exh []string
		for _, e := range prop.Engines {
			if e.Exhaustive {
				exh = append(exh, e.Name)
			}
		}
		cov["exhaustive_engines"] = exh
	}
	if exhaustive {
		cov["exhaustive"] = true
	}
	for _, e := range prop.Engines {
		if e.Race {
			cov["race_report_blocks"] = agg.RaceBlocks
			cov["race_reports_distinct"] = agg.RaceDistinct
			break
		}
	}
	for k, v := range agg.Extra {
		cov[k] = v
	}
	ev := map[string]any{
		"property_id": id,
		"tier":        tier,
		"seed":        seed,
		"level":       "exploration",
		"coverage":    cov,
		"assumptions": prop.Assumptions,
		"wall_s":      time.Since(t0).Seconds(),
		"violations":  len(fresh),
	}
	os.MkdirAll(filepath.Join(root, "evidence"), 0o755)
	eb, _ := json.MarshalIndent(ev, "", " ")
	if err := os.WriteFile(filepath.Join(root, "evidence", id+".json"), eb, 0o644); err != nil {
		fmt.Fprintln(os.Stderr, "evidence:", err)
		return 2
	}
	verdict := "held on what was observed"
	if len(fresh) > 0 {
		verdict = "VIOLATED"
	}
	fmt.Printf("%s %s seed=%d: %d cases, %d distinct non-trivial, %d violation signature(s), %d inconclusive reason(s), %d known open finding(s), %.1fs -> %s\n",
		id, tier, seed, total, agg.Distinct, len(sigs), len(agg.Inconclusive), knownOpen, time.Since(t0).Seconds(), verdict)
	if len(fresh) > 0 {
		return 1
	}
	if total == 0 || agg.Distinct < 2 {
		fmt.Printf("INCONCLUSIVE property=%s reason=the run observed nothing (cases=%d distinct=%d)\n", id, total, agg.Distinct)
		return 2
	}
	if len(fresh) > 0 {
		return 1
	}
	return 0
}

func sanitize(s string) string {
	return strings.Map(func(r rune) rune {
		if r >= 'a' && r <= 'z' || r >= 'A' && r <= 'Z' || r >= '0' && r <= '9' || r == '-' || r == '_' {
			return r
		}
		return '_'
	}, s)
}

// runRepro runs a named reproducer in a child process (it may crash or hang).
func runRepro(exe, raceExe string, prop *Property, name string) (bool, string) {
	if prop.Repro == nil || prop.Repro[name] == nil {
		return false, "no such reproducer: " + name
	}
	bin := exe
	env := os.Environ()
	if strings.HasPrefix(name, "race:") {
		bin = raceExe
	}
	cmd := exec.Command(bin, "repro", prop.ID, name)
	cmd.Env = env
	var out strings.Builder
	cmd.Stdout = &out
	cmd.Stderr = &out
	if err := cmd.Start(); err != nil {
		return false, err.Error()
	}
	done := make(chan error, 1)
	go func() { done <- cmd.Wait() }()
	select {
	case err := <-done:
		s := out.String()
		if strings.Contains(s, "WARNING: DATA RACE") {
			return true, "the race detector reported a data race:\n" + firstLines(s[strings.Index(s, "WARNING: DATA RACE"):], 25)
		}
		if strings.Contains(s, "REPRO-FAILS") {
			return true, firstLines(s, 30)
		}
		if strings.Contains(s, "REPRO-PASSES") && err == nil {
			return false, firstLines(s, 5)
		}
		return true, "reproducer crashed: " + fmt.Sprint(err) + "\n" + firstLines(s, 30)
	case <-time.After(120 * time.Second):
		// The deadline itself is not a verdict.  A reproducer that burnt CPU all the
		// time does not return (that is what the original defects of this kind did); one
		// that sits in a blocking operation of the repository with no harness scheduler
		// in the picture is blocked; anything else (a loaded machine, a controlled
		// schedule waiting for its own watchdog) is inconclusive.
		cpu := procCPU(cmd.Process.Pid)
		cmd.Process.Signal(syscall.SIGQUIT)
		select {
		case <-done:
		case <-time.After(10 * time.Second):
			cmd.Process.Kill()
			<-done
		}
		dump := out.String()
		switch {
		case cpu > 60:
			return true, fmt.Sprintf("reproducer did not return: %.0f s of CPU time consumed in 120 s", cpu)
		case reproBlocked(dump):
			return true, "reproducer is blocked inside the repository:\n" + firstLines(dump, 40)
		}
		return false, "inconclusive: reproducer did not finish within 120 s, used little CPU and is not blocked inside the repository"
	}
}

// reproBlocked: the dump (SIGQUIT) shows a goroutine parked in a blocking
// operation with a repository frame on its stack while no goroutine of the
// dump belongs to a controlled schedule (whose parked goroutines are expected).
func reproBlocked(dump string) bool {
	if strings.Contains(dump, "conc.(*Sched)") {
		return false
	}
	for _, block := range strings.Split(dump, "\n\n") {
		if !strings.HasPrefix(block, "goroutine ") || !strings.Contains(block, "go-collection-framework/v4") {
			continue
		}
		head := firstLines(block, 1)
		for _, st := range []string{"[chan send", "[chan receive", "[select", "[sync.Mutex.Lock", "[sync.RWMutex", "[semacquire", "[sync.Cond.Wait", "[sync.WaitGroup.Wait"} {
			if strings.Contains(head, st) {
				return true
			}
		}
	}
	return false
}

func firstLines(s string, n int) string {
	l := strings.Split(s, "\n")
	if len(l) > n {
		l = l[:n]
	}
	return strings.Join(l, "\n")
}

// ReproMain: vcheck repro <ID> <name>
func ReproMain(args []string) int {
	if len(args) != 2 {
		return 2
	}
	prop := Lookup(args[0])
	if prop == nil || prop.Repro[args[1]] == nil {
		fmt.Println("unknown reproducer")
		return 2
	}
	fails, detail := prop.Repro[args[1]]()
	if fails {
		fmt.Println("REPRO-FAILS", detail)
	} else {
		fmt.Println("REPRO-PASSES", detail)
	}
	return 0
}

// ReplayMain: vcheck replay <path>: re-executes the recorded case.
func ReplayMain(args []string) int {
	if len(args) != 1 {
		return 2
	}
	b, err := os.ReadFile(args[0])
	if err != nil {
		fmt.Fprintln(os.Stderr, err)
		return 2
	}
	var v Violation
	if err := json.Unmarshal(b, &v); err != nil {
		fmt.Fprintln(os.Stderr, err)
		return 2
	}
	prop := Lookup(v.Property)
	if prop == nil {
		fmt.Fprintln(os.Stderr, "unknown property", v.Property)
		return 2
	}
	if strings.HasPrefix(v.Engine, "repro:") {
		fails, detail := prop.Repro[strings.TrimPrefix(v.Engine, "repro:")]()
		fmt.Println(detail)
		if fails {
			fmt.Printf("VIOLATION property=%s replay=%s\n", v.Property, args[0])
			return 1
		}
		return 0
	}
	var eng *Engine
	for _, e := range prop.Engines {
		if e.Name == v.Engine {
			eng = e
		}
	}
	if eng == nil {
		fmt.Println("the recorded violation came from", v.Engine, "- re-run the check itself to replay it")
		return 2
	}
	dir, _ := os.MkdirTemp(filepath.Join(Root(), ".build"), "replay")
	defer os.RemoveAll(dir)
	w := &workerState{dir: dir, tag: "replay", seen: map[uint64]struct{}{},
		rep: Report{Evaluations: map[string]int{}, Cov: map[string]int{}, Samples: map[string][]any{}, Inconclusive: map[string]int{}}}
	w.vioFile, _ = os.OpenFile(filepath.Join(dir, "violations.replay.jsonl"), os.O_CREATE|os.O_RDWR|os.O_APPEND, 0o644)
	runCase(w, prop, eng, v.Index, v.Seed, v.Tier)
	w.vioFile.Close()
	out, _ := os.ReadFile(filepath.Join(dir, "violations.replay.jsonl"))
	if len(out) == 0 {
		fmt.Println("replay: the case ran without a violation")
		return 0
	}
	os.Stdout.Write(out)
	fmt.Printf("VIOLATION property=%s replay=%s\n", v.Property, args[0])
	return 1
}

// cleanStaleWork removes work directories whose orchestrator is gone.
func cleanStaleWork(dir string) {
	ents, err := os.ReadDir(dir)
	if err != nil {
		return
	}
	for _, e := range ents {
		i := strings.LastIndex(e.Name(), ".")
		if i < 0 {
			continue
		}
		pid, err := strconv.Atoi(e.Name()[i+1:])
		if err != nil {
			continue
		}
		if _, err := os.Stat(fmt.Sprintf("/proc/%d", pid)); err != nil {
			os.RemoveAll(filepath.Join(dir, e.Name()))
		}
	}
}
