package core

import (
	"fmt"
	"sort"
	"sync"
)

// Engine is one generator+oracle pair.  Case idx of an engine is a pure
// function of (seed, engine name, idx).
type Engine struct {
	Name string
	// Count gives the number of cases for a tier ("quick" or "thorough").
	Count func(tier string) int
	// Run executes case idx and reports through c.
	Run func(c *Ctx, idx int)
	// CPULimit is the CPU time (seconds) a single case may consume before the
	// orchestrator declares "the call does not return" (0 = default 10).
	CPULimit float64
	// Race engines run in the race-detector build of the worker.
	Race bool
	// Exhaustive marks engines that enumerate a finite space completely.
	Exhaustive bool
	// MaxWorkers caps the number of worker processes (0 = no cap).
	MaxWorkers int
	// Pool: engines with the same non-empty Pool share worker processes of their own, so that
	// goroutines they may leave behind (abandoned controlled schedules) cannot be seen by the
	// monitors of other engines
	Pool string
	// BlockIsViolation: a confirmed deadlock of the worker while executing a
	// case of this engine is a violation (otherwise it is inconclusive).
	BlockIsViolation bool
}

// Property is the unit that the manifest registers.
type Property struct {
	ID          string
	Title       string
	Rule        string // how cases are generated and what makes one distinct & non-trivial
	Assumptions []string
	Engines     []*Engine
	// Finish may add inconclusive reasons / extra coverage after all workers ended.
	Finish func(a *Agg)
	// Repro maps the name of a known-finding reproducer to a function that
	// returns (stillFails, detail).
	Repro map[string]func() (bool, string)
}

var (
	regMu    sync.Mutex
	registry = map[string]*Property{}
)

func Register(p *Property) {
	regMu.Lock()
	defer regMu.Unlock()
	if _, dup := registry[p.ID]; dup {
		panic("duplicate property " + p.ID)
	}
	registry[p.ID] = p
}

func Lookup(id string) *Property {
	regMu.Lock()
	defer regMu.Unlock()
	return registry[id]
}

func AllIDs() []string {
	regMu.Lock()
	defer regMu.Unlock()
	var ids []string
	for id := range registry {
		ids = append(ids, id)
	}
	sort.Strings(ids)
	return ids
}

// Violation is one observed contradiction of a property.
type Violation struct {
	Property  string `json:"property"`
	Engine    string `json:"engine"`
	Index     int    `json:"index"`
	Seed      uint64 `json:"seed"`
	Tier      string `json:"tier"`
	Signature string `json:"signature"`
	Message   string `json:"message"`
	Case      any    `json:"case,omitempty"`
}

// Ctx is handed to Engine.Run.
type Ctx struct {
	Prop   string
	Engine string
	Index  int
	Seed   uint64
	Tier   string
	Rng    *Rng

	w *workerState
}

// Violation records a violation.  sig is the stable signature used for
// matching known findings: "<operation>/<input class>/<discrepancy>".
func (c *Ctx) Violation(sig, msg string, cs any) {
	c.w.violation(Violation{
		Property: c.Prop, Engine: c.Engine, Index: c.Index, Seed: c.Seed, Tier: c.Tier,
		Signature: sig, Message: msg, Case: cs,
	})
}

// Violationf is Violation with a formatted message.
func (c *Ctx) Violationf(sig string, cs any, format string, args ...any) {
	c.Violation(sig, fmt.Sprintf(format, args...), cs)
}

// Cover increments a coverage counter.
func (c *Ctx) Cover(key string) { c.w.cover(key, 1) }

func (c *Ctx) CoverN(key string, n int) { c.w.cover(key, n) }

// Distinct records the hash of a non-trivial item observed.
func (c *Ctx) Distinct(h uint64) { c.w.distinct(h) }

func (c *Ctx) DistinctStr(s string) { c.w.distinct(HashStr(s)) }

// Sample keeps the first few samples per kind.
func (c *Ctx) Sample(kind string, v any) { c.w.sample(kind, v) }

// WantSample says whether another sample of that kind would be kept.
func (c *Ctx) WantSample(kind string) bool { return c.w.wantSample(kind) }

// Inconclusive records an inconclusive observation.
func (c *Ctx) Inconclusive(reason string) { c.w.inconclusive(reason) }

// Tiered picks quick or thorough.
func Tiered(tier string, quick, thorough int) int {
	if tier == "thorough" {
		return thorough
	}
	return quick
}

// FixedCount returns a Count function.
func FixedCount(quick, thorough int) func(string) int {
	return func(t string) int { return Tiered(t, quick, thorough) }
}
