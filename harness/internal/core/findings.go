package core

import (
	"encoding/json"
	"os"
	"strings"
)

// Finding is one entry of /verif/KNOWN_FINDINGS.json (committed, never written
// at run time).
type Finding struct {
	ID       string   `json:"id"`
	Property string   `json:"property"`
	Status   string   `json:"status"` // "open" | "fixed"
	Commit   string   `json:"commit,omitempty"`
	Match    []string `json:"match"` // signature prefixes this finding explains
	Repro    string   `json:"repro"` // name of the reproducer in the harness
	What     string   `json:"what"`
	Line     string   `json:"line,omitempty"` // the "fixed: property=… <commit> <what failed>" record
}

type FindingsFile struct {
	Comment  string    `json:"comment,omitempty"`
	Findings []Finding `json:"findings"`
}

func LoadFindings(path string) ([]Finding, error) {
	b, err := os.ReadFile(path)
	if err != nil {
		if os.IsNotExist(err) {
			return nil, nil
		}
		return nil, err
	}
	var f FindingsFile
	if err := json.Unmarshal(b, &f); err != nil {
		return nil, err
	}
	return f.Findings, nil
}

// MatchOpen returns the open finding that explains the signature, if any.
func MatchOpen(fs []Finding, prop, sig string) *Finding {
	for i := range fs {
		f := &fs[i]
		if f.Property != prop || f.Status != "open" {
			continue
		}
		for _, m := range f.Match {
			if m != "" && strings.HasPrefix(sig, m) {
				return f
			}
		}
	}
	return nil
}
