//go:build !race

package core

const RaceEnabled = false
