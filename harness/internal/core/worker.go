package core

import (
	"bufio"
	"encoding/binary"
	"encoding/json"
	"fmt"
	"os"
	"path/filepath"
	"runtime"
	"runtime/debug"
	"strconv"
	"time"
)

const maxSamplesPerKind = 3

// Report is what a worker leaves behind (rewritten periodically, so that a
// crash loses at most a moment of counters; violations are appended at once).
type Report struct {
	Evaluations  map[string]int   `json:"evaluations"`
	Cov          map[string]int   `json:"cov"`
	Samples      map[string][]any `json:"samples"`
	Inconclusive map[string]int   `json:"inconclusive"`
	Done         bool             `json:"done"`
}

type workerState struct {
	dir        string
	tag        string // file name tag: <shard>.<generation>
	rep        Report
	seen       map[uint64]struct{}
	pending    []uint64
	vioFile    *os.File
	lastFlush  time.Time
	sinceCheck int
	journal    *bufio.Writer
}

func (w *workerState) violation(v Violation) {
	b, err := json.Marshal(v)
	if err != nil {
		v.Case = fmt.Sprintf("%+v", v.Case)
		b, _ = json.Marshal(v)
	}
	b = append(b, '\n')
	w.vioFile.Write(b)
}

func (w *workerState) cover(key string, n int) { w.rep.Cov[key] += n }

func (w *workerState) distinct(h uint64) {
	if _, ok := w.seen[h]; ok {
		return
	}
	w.seen[h] = struct{}{}
	w.pending = append(w.pending, h)
}

func (w *workerState) wantSample(kind string) bool {
	return len(w.rep.Samples[kind]) < maxSamplesPerKind
}

func (w *workerState) sample(kind string, v any) {
	if w.wantSample(kind) {
		w.rep.Samples[kind] = append(w.rep.Samples[kind], v)
	}
}

func (w *workerState) inconclusive(reason string) { w.rep.Inconclusive[reason]++ }

func (w *workerState) flush(done bool) {
	w.rep.Done = done
	// distinct hashes: append-only binary file
	if len(w.pending) > 0 {
		f, err := os.OpenFile(filepath.Join(w.dir, "distinct."+w.tag+".bin"), os.O_CREATE|os.O_WRONLY|os.O_APPEND, 0o644)
		if err == nil {
			buf := make([]byte, 8*len(w.pending))
			for i, h := range w.pending {
				binary.LittleEndian.PutUint64(buf[8*i:], h)
			}
			f.Write(buf)
			f.Close()
		}
		w.pending = w.pending[:0]
	}
	b, err := json.Marshal(&w.rep)
	if err != nil {
		// a sample that cannot be marshalled must not kill the report
		w.rep.Samples = map[string][]any{"unmarshalable": {fmt.Sprint(err)}}
		b, _ = json.Marshal(&w.rep)
	}
	tmp := filepath.Join(w.dir, "report."+w.tag+".tmp")
	os.WriteFile(tmp, b, 0o644)
	os.Rename(tmp, filepath.Join(w.dir, "report."+w.tag+".json"))
	w.lastFlush = time.Now()
}

// caseList flattens the engines of one group into a global numbering.
type caseList struct {
	engines []*Engine
	starts  []int
	total   int
}

func newCaseList(engines []*Engine, tier string) *caseList {
	cl := &caseList{engines: engines}
	for _, e := range engines {
		cl.starts = append(cl.starts, cl.total)
		cl.total += e.Count(tier)
	}
	return cl
}

func (cl *caseList) locate(k int) (*Engine, int) {
	for i := len(cl.engines) - 1; i >= 0; i-- {
		if k >= cl.starts[i] {
			return cl.engines[i], k - cl.starts[i]
		}
	}
	return nil, 0
}

// CaseRng is the stream of one case.
func CaseRng(seed uint64, prop, engine string, idx int) *Rng {
	return NewRng(seed, HashStr(prop+"/"+engine), uint64(idx))
}

func runCase(w *workerState, prop *Property, e *Engine, idx int, seed uint64, tier string) {
	c := &Ctx{Prop: prop.ID, Engine: e.Name, Index: idx, Seed: seed, Tier: tier,
		Rng: CaseRng(seed, prop.ID, e.Name, idx), w: w}
	defer func() {
		if r := recover(); r != nil {
			c.Violation("escaped-panic/"+e.Name, fmt.Sprintf("panic escaped the engine: %v\n%s", r, debug.Stack()), nil)
		}
	}()
	e.Run(c, idx)
}

// selectEngines returns the engines of a group.
func selectEngines(p *Property, group string) []*Engine {
	var out []*Engine
	for _, e := range p.Engines {
		if groupOf(e) == group {
			out = append(out, e)
		}
	}
	return out
}

func groupOf(e *Engine) string {
	g := "plain"
	if e.Race {
		g = "race"
	}
	if e.MaxWorkers > 0 {
		g += "." + strconv.Itoa(e.MaxWorkers)
	}
	if e.Pool != "" {
		g += "." + e.Pool
	}
	return g
}

// WorkerMain: vcheck worker <ID> <tier> <seed> <group> <shard> <nshards> <dir> <gen> <startK>
func WorkerMain(args []string) int {
	if len(args) != 9 {
		fmt.Fprintln(os.Stderr, "worker: bad arguments")
		return 2
	}
	prop := Lookup(args[0])
	if prop == nil {
		fmt.Fprintln(os.Stderr, "worker: unknown property", args[0])
		return 2
	}
	tier := args[1]
	seed, _ := strconv.ParseUint(args[2], 10, 64)
	group := args[3]
	shard, _ := strconv.Atoi(args[4])
	nshards, _ := strconv.Atoi(args[5])
	dir := args[6]
	gen := args[7]
	startK, _ := strconv.Atoi(args[8])

	debug.SetMaxStack(64 << 20)
	engines := selectEngines(prop, group)
	cl := newCaseList(engines, tier)
	tag := fmt.Sprintf("%s.%d.%s", group, shard, gen)
	w := &workerState{dir: dir, tag: tag, seen: map[uint64]struct{}{},
		rep: Report{Evaluations: map[string]int{}, Cov: map[string]int{}, Samples: map[string][]any{}, Inconclusive: map[string]int{}}}
	var err error
	w.vioFile, err = os.OpenFile(filepath.Join(dir, "violations."+tag+".jsonl"), os.O_CREATE|os.O_WRONLY|os.O_APPEND, 0o644)
	if err != nil {
		fmt.Fprintln(os.Stderr, "worker:", err)
		return 2
	}
	w.lastFlush = time.Now()
	out := os.Stdout
	for k := startK; k < cl.total; k++ {
		if k%nshards != shard {
			continue
		}
		e, idx := cl.locate(k)
		// journal BEFORE executing: a plain write(2), no buffering
		out.Write([]byte("B " + strconv.Itoa(k) + "\n"))
		runCase(w, prop, e, idx, seed, tier)
		w.rep.Evaluations[e.Name]++
		w.sinceCheck++
		if w.sinceCheck >= 64 {
			w.sinceCheck = 0
			if time.Since(w.lastFlush) > 1500*time.Millisecond {
				w.flush(false)
			}
		}
	}
	w.flush(true)
	out.Write([]byte("DONE\n"))
	runtime.KeepAlive(w)
	return 0
}
