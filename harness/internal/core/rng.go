// Package core holds what every check shares: deterministic PRNG streams, the
// engine/ctx abstraction, the worker/orchestrator pair, evidence and known
// findings.
package core

import (
	"hash/fnv"
	"math"
)

// Rng is xoshiro256** seeded through splitmix64.  Every case derives its own
// stream from (seed, engine name, case index) so that a case is reproducible
// whatever worker executes it.
type Rng struct{ s [4]uint64 }

func splitmix(x *uint64) uint64 {
	*x += 0x9e3779b97f4a7c15
	z := *x
	z = (z ^ (z >> 30)) * 0xbf58476d1ce4e5b9
	z = (z ^ (z >> 27)) * 0x94d049bb133111eb
	return z ^ (z >> 31)
}

// NewRng mixes all parts into a fresh stream.
func NewRng(parts ...uint64) *Rng {
	var x uint64 = 0x1234567887654321
	for _, p := range parts {
		x ^= p
		splitmix(&x)
		x = x*0x2545F4914F6CDD1D + 0x9e3779b97f4a7c15
	}
	r := &Rng{}
	for i := range r.s {
		r.s[i] = splitmix(&x)
	}
	return r
}

func rotl(x uint64, k uint) uint64 { return (x << k) | (x >> (64 - k)) }

func (r *Rng) Uint64() uint64 {
	s := &r.s
	result := rotl(s[1]*5, 7) * 9
	t := s[1] << 17
	s[2] ^= s[0]
	s[3] ^= s[1]
	s[1] ^= s[2]
	s[0] ^= s[3]
	s[2] ^= t
	s[3] = rotl(s[3], 45)
	return result
}

// Intn returns a value in [0,n).  n<=0 yields 0.
func (r *Rng) Intn(n int) int {
	if n <= 1 {
		return 0
	}
	return int(r.Uint64() % uint64(n))
}

// Range returns a value in [lo,hi].
func (r *Rng) Range(lo, hi int) int {
	if hi <= lo {
		return lo
	}
	return lo + r.Intn(hi-lo+1)
}

func (r *Rng) Bool() bool { return r.Uint64()&1 == 1 }

// Chance is true with probability num/den.
func (r *Rng) Chance(num, den int) bool { return r.Intn(den) < num }

func (r *Rng) Float64() float64 { return float64(r.Uint64()>>11) / float64(1<<53) }

// Fork derives an independent stream.
func (r *Rng) Fork() *Rng { return NewRng(r.Uint64(), r.Uint64()) }

// Perm returns a random permutation of 0..n-1.
func (r *Rng) Perm(n int) []int {
	p := make([]int, n)
	for i := range p {
		p[i] = i
	}
	for i := n - 1; i > 0; i-- {
		j := r.Intn(i + 1)
		p[i], p[j] = p[j], p[i]
	}
	return p
}

// Weighted picks an index with probability proportional to its weight.
func (r *Rng) Weighted(w []int) int {
	t := 0
	for _, x := range w {
		t += x
	}
	if t <= 0 {
		return 0
	}
	k := r.Intn(t)
	for i, x := range w {
		if k < x {
			return i
		}
		k -= x
	}
	return len(w) - 1
}

// HashStr is FNV-1a 64.
func HashStr(s string) uint64 {
	h := fnv.New64a()
	h.Write([]byte(s))
	return h.Sum64()
}

// Mix combines hashes.
func Mix(parts ...uint64) uint64 {
	var x uint64 = 0xabcdef0123456789
	for _, p := range parts {
		x ^= p
		x = splitmix(&x)
	}
	return x
}

// FloatBits is a helper for hashing floats.
func FloatBits(f float64) uint64 { return math.Float64bits(f) }
